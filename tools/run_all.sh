#!/bin/bash
# runs every registered quick (or $1=thorough) check against /repo and validates the evidence files
cd "$(dirname "$0")/.."
TIER=${1:-quick}
rc=0
for p in $(python3 -c "import json; print(' '.join(c['property_id'] for c in json.load(open('MANIFEST.json'))['checks']))"); do
  s=$(date +%s); out=$(./check $p --tier $TIER 2>/dev/null); e=$?; t=$(( $(date +%s) - s ))
  echo "$p exit=$e ${t}s $(echo "$out" | grep -E "^\[$p\]" | cut -c1-170)"
  echo "$out" | grep -E "^(VIOLATION|KNOWN-FINDING|INCONCLUSIVE|HARNESS)" | cut -c1-200
  [ $e -ne 0 ] && rc=1
done
python3-vt - <<'P'
import json, jsonschema, glob
sch = json.load(open('/root/.vp/EVIDENCE.schema.json'))
for c in json.load(open('/verif/MANIFEST.json'))['checks']:
    try:
        jsonschema.validate(json.load(open('/verif/' + c['evidence_file'])), sch)
    except Exception as ex:
        print("EVIDENCE INVALID", c['property_id'], str(ex)[:200])
print("evidence validated")
P
exit $rc
