#!/bin/bash
# confirm every seeded change on a worktree of the current /repo HEAD: demo passes clean, fails patched; pinned suite passes patched
# usage: tools/confirm_head.sh [ids...]   (default: all of /verif/seeded)
W=/tmp/wt/HEAD
[ -d $W ] || git -C /repo worktree add -q --detach $W HEAD
mkdir -p /tmp/seedout/confirm_head
LIST="$@"; [ -z "$LIST" ] && LIST=$(ls /verif/seeded)
for s in $LIST; do
  d=/verif/seeded/$s
  cd $W; git checkout -q -- .; git clean -fdq
  LIESEL_REPO=$W PYTHONPATH=$W timeout 1500 /venv/bin/python $d/demo.py > /tmp/seedout/confirm_head/$s.clean.log 2>&1; rc0=$?
  git apply $d/patch.diff 2>/dev/null || { echo "$s APPLY_FAILED"; continue; }
  LIESEL_REPO=$W PYTHONPATH=$W timeout 1500 /venv/bin/python $d/demo.py > /tmp/seedout/confirm_head/$s.patched.log 2>&1; rc1=$?
  suite=$(PYTHONPATH=$W timeout 1800 /venv/bin/python -m pytest -q -p no:cacheprovider -n 6 --timeout=900 2>&1 | tail -1)
  git checkout -q -- .; git clean -fdq
  echo "$s clean=$rc0 patched=$rc1 suite=[$suite]"
done
