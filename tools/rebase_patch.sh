#!/bin/bash
# usage: tools/rebase_patch.sh <python-edit-script> <out.diff> : applies an edit script to a scratch copy of /repo HEAD and writes the diff (liesel/ only)
D=$(mktemp -d /tmp/reb.XXXX); rsync -a /repo/ $D/ ; (cd $D && git checkout -q -- . && python3 "$1" && git diff -- liesel > "$2"); rm -rf $D; wc -l "$2"
