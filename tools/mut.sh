#!/bin/bash
# usage: tools/mut.sh <patch.diff|-R:commit> <ID> [check args...]
# Runs a check against a scratch copy of /repo (HEAD working tree) with a patch applied; removes the copy afterwards.
set -u
P="$1"; ID="$2"; shift 2
D=$(mktemp -d /tmp/mut.XXXXXX)
rsync -a --exclude .git --exclude docs --exclude tests /repo/ "$D/" 
if [[ "$P" == -R:* ]]; then
  (cd /repo && git show "${P#-R:}" | (cd "$D" && patch -R -p1 -s)) || { echo "reverse apply failed"; rm -rf "$D"; exit 3; }
else
  (cd "$D" && patch -p1 -s < "$P") || { echo "apply failed"; rm -rf "$D"; exit 3; }
fi
VERIF_REPO="$D" VERIF_EVIDENCE_DIR="$D/evidence" /verif/check "$ID" "$@"
rc=$?
rm -rf "$D"
echo "exit=$rc"
exit $rc
