#!/usr/bin/env python3
"""For every seeded change: apply it to a scratch copy of /repo HEAD, run the named checks (default: the seed's own
property and the extra checks listed below), record exit codes and reported violations in seeded/<id>/meta.json."""
import json, os, re, subprocess, sys, time
HERE = os.path.dirname(os.path.dirname(os.path.abspath(__file__)))
EXTRA = {"C03-A": ["C09"], "C09-A": ["C03"], "C04-A": ["C06"], "C04-B": ["C10", "C09"], "C06-A": ["C04"], "C04-C": ["C06"], "C15-C": ["C01"], "C13-C": ["C18"], "C09-C": ["C03"], "C02-D": ["C01"], "C04-D": ["C03", "C09"], "C12-D": ["C07"], "C08-D": ["C19"], "C16-D": ["C08"], "C04-E": ["C05", "C06"], "C07-E": ["C11"], "C12-E": ["C07"], "C04-F": ["C11"], "C08-F": ["C07"], "C07-F": ["C16"], "C02-H": ["C01"], "C03-H": ["C02"], "C10-H": ["C04"], "C12-H": ["C07", "C09"], "C02-I": ["C01"], "C04-I": ["C06"], "C12-I": ["C07"], "C13-I": ["C01"], "C01-J": ["C02"], "C08-J": ["C16"], "C09-J": ["C03"], "C19-J": ["C08"], "C06-K": ["C05"], "C09-L": ["C03"]}
NEEDS = {}
def first_lines(path, n=6):
    try:
        return " ".join(l.strip() for l in open(path).read().splitlines()[:n])[:900]
    except OSError:
        return ""
def confirm_map():
    m = {}
    for p in ("/tmp/seedout/confirm_head.log", "/tmp/seedout/confirm_head2.log", "/tmp/seedout/confirm_head3.log", "/tmp/seedout/confirm_head4.log", "/tmp/seedout/confirm_head5.log", "/tmp/seedout/confirm_head6.log", "/tmp/seedout/confirm_head7.log", "/tmp/seedout/confirm_head8.log", "/tmp/seedout/confirm_head9.log", "/tmp/seedout/confirm_head10.log", "/tmp/seedout/confirm_head11.log", os.path.join(HERE, "seeded_confirmed_on_head.log")):
        if not os.path.exists(p):
            continue
        for l in open(p):
            mm = re.match(r"(C\d\d-[A-Z]) clean=(\d+) patched=(\d+) suite=\[(.*)\]", l.strip())
            if mm:
                m[mm.group(1)] = dict(demo_exit_clean=int(mm.group(2)), demo_exit_patched=int(mm.group(3)), pinned_suite_with_patch=mm.group(4))
    return m
def main():
    seeds = sys.argv[1:] or sorted(os.listdir(os.path.join(HERE, "seeded")))
    conf = confirm_map()
    for s in seeds:
        d = os.path.join(HERE, "seeded", s)
        pid = s.split("-")[0]
        checks = [pid] + EXTRA.get(s, [])
        meta_p = os.path.join(d, "meta.json")
        meta = json.load(open(meta_p)) if os.path.exists(meta_p) else {}
        meta.update(property=pid, seed=s, source="independent sub-agent given only the property text and a private worktree",
                    what_and_needs=first_lines(os.path.join(d, "notes.md")), base_commit=subprocess.check_output(["git", "-C", "/repo", "rev-parse", "--short", "HEAD"]).decode().strip())
        if s in conf:
            meta["confirmed_on_head_worktree"] = conf[s]
        res = meta.get("checks", {})
        for c in checks:
            t0 = time.time()
            p = subprocess.run([os.path.join(HERE, "tools", "mut.sh"), os.path.join(d, "patch.diff"), c, "--tier", "quick"], capture_output=True, text=True)
            out = p.stdout
            res[c] = dict(exit=p.returncode, detected=p.returncode == 1, seconds=round(time.time() - t0, 1),
                          reported=[l.strip()[6:260] for l in out.splitlines() if l.strip().startswith("what:")][:6],
                          summary=next((l for l in out.splitlines() if l.startswith(f"[{c}]")), "")[:200],
                          command=f"tools/mut.sh seeded/{s}/patch.diff {c} --tier quick   (scratch copy of /repo with the patch, VERIF_REPO pointing at it)")
            print(s, c, "exit", p.returncode, flush=True)
        meta["checks"] = res
        meta["caught_by"] = sorted(c for c, r in res.items() if r["detected"])
        json.dump(meta, open(meta_p, "w"), indent=1)
if __name__ == "__main__":
    main()
