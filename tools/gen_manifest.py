#!/usr/bin/env python3
"""regenerates /verif/MANIFEST.json from the table below"""
import json, os
HERE = os.path.dirname(os.path.dirname(os.path.abspath(__file__)))
B = "Engine B (jaxpr -> z3)"
A = "Engine A (CrossHair)"
MC = "model_checking"
CHECKS = {
 "C05": dict(engine=B, text="Bounded symbolic check with no bound other than float32: the jaxpr of the real mh_step is interpreted over z3 Float32/BitVec terms and z3 decides every obligation of the acceptance rule for all log-densities (incl. +-inf/NaN), corrections, states and all 2^32 random words behind the uniform draw; counterexamples are replayed on the real code with a real PRNG key found by search.",
             note="exp is an uninterpreted float32 function with sign/monotonicity/special-value axioms; random_bits is an arbitrary word (ideal PRNG); DictInterface model; log ratio may be associated in any order.",
             technique="symbolic execution of the jaxpr of mh_step over z3 FP/BV terms, SMT (z3 QF_FPBV+UF) verdict per obligation", design="5/C05"),
 "C11": dict(engine=B, text="Bounded symbolic check: jaxprs of da_init/da_step/da_finalize and of the transition/start_epoch/end_epoch methods of the step-size adapting kernels are interpreted over z3 reals; z3 shows for all states, acceptance probabilities, times and (through the real lax.cond) all epoch types that one step equals the Hoffman-Gelman/Stan recurrence, is monotone in the acceptance probability, and that the tuning state is frozen outside adaptation epochs.",
             note="Real arithmetic (rounding outside the claim); exp/log/pow/sqrt uninterpreted with axioms; blackjax kernels stubbed; toy Dict model; one step from an arbitrary state (sequences follow by induction).",
             technique="jaxpr interpretation over z3 reals with Ackermannised UFs; z3/nlsat verdict per obligation", design="5/C11"),
 "C12": dict(engine=B, text="Bounded symbolic check: the jaxpr of the real HMC/NUTS _tune_slow/tune is interpreted over z3 reals with every history entry symbolic (T rows) for an enumerated family of key orders/shapes, diag and dense; z3 shows entry i equals the regularised sample (co)variance of flat coordinate i of ravel_pytree(position) and the step-size rescaling rule.",
             note="blackjax indexes the metric by ravel_pytree order; real arithmetic (float32 cancellation outside the claim); T<=4 rows, dimension<=5; key orders/shapes enumerated.",
             technique="jaxpr interpretation over z3 reals; polynomial identities decided by z3", design="5/C12"),
}
NA = {
 "C19": "numpy fancy indexing / pandas / pickle / xarray code: no jaxpr, and CrossHair realises every value crossing into those extensions (probe: not confirmed in 300 s for a 2x2 code matrix); a hand model of pandas would verify the model, not the code (DESIGN.md section 6).",
}
PENDING = "check not built yet in this round (planned, see DESIGN.md section 5)"
ALL = [f"C{i:02d}" for i in range(1, 21)]
m = dict(version=1, setup_cmd="./setup.sh",
         hooks=dict(guard="LIESEL_VERIF", enable="no hooks needed: harnesses re-bind module globals from outside; checks import liesel from $VERIF_REPO (default /repo)",
                    baseline_off_cmd="cd /repo && /venv/bin/python -m pytest -ra -q -p no:cacheprovider --timeout=900 --continue-on-collection-errors", source_commits=[], add_only=True),
         engines=[dict(name=B, path="vf/jx2smt.py", serves_properties=[k for k, v in CHECKS.items() if v["engine"] == B], kind_free_text="interpreter of jax.make_jaxpr output over z3 terms (real and float32 modes), Ackermannisation, z3/nlsat, replay on the real code"),
                  dict(name=A, path="vf/chrun.py", serves_properties=[k for k, v in CHECKS.items() if v["engine"] == A], kind_free_text="CrossHair symbolic execution of the real Python control code with a faked JAX environment")],
         checks=[], notes="Solver-based bounded checking; every result is 'holds for all values within the stated shapes/bounds'. Exit 0 pass, 1 VIOLATION (replayed on the real code), 2 inconclusive/harness error. See DESIGN.md.",
         not_applicable=[])
for pid in ALL:
    if pid in CHECKS:
        c = CHECKS[pid]
        m["checks"].append(dict(property_id=pid, quick_cmd=f"./check {pid} --tier quick", thorough_cmd=f"./check {pid} --tier thorough", evidence_file=f"evidence/{pid}.json",
                                replay_cmd_template=f"./check {pid} --replay {{path}}", engine=c["engine"],
                                level_claimed=dict(category=MC, text=c["text"], design_ref="DESIGN.md section " + c["design"]), level_note=c["note"], technique=c["technique"]))
    else:
        m["not_applicable"].append(dict(property_id=pid, reason=NA.get(pid, PENDING)))
json.dump(m, open(os.path.join(HERE, "MANIFEST.json"), "w"), indent=1)
print("checks:", [c["property_id"] for c in m["checks"]], "n/a:", [n["property_id"] for n in m["not_applicable"]])
