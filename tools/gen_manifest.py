#!/usr/bin/env python3
"""regenerates /verif/MANIFEST.json from the table below"""
import json, os
HERE = os.path.dirname(os.path.dirname(os.path.abspath(__file__)))
B = "Engine B (jaxpr -> z3)"
A = "Engine A (CrossHair)"
MC = "model_checking"
CHECKS = {
 "C05": dict(engine=B, text="Bounded symbolic check with no bound other than float32: the jaxpr of the real mh_step is interpreted over z3 Float32/BitVec terms and z3 decides every obligation of the acceptance rule for all log-densities (incl. +-inf/NaN), corrections, states and all 2^32 random words behind the uniform draw; counterexamples are replayed on the real code with a real PRNG key found by search.",
             note="exp is an uninterpreted float32 function with sign/monotonicity/special-value axioms; random_bits is an arbitrary word (ideal PRNG); DictInterface model; log ratio may be associated in any order.",
             technique="symbolic execution of the jaxpr of mh_step over z3 FP/BV terms, SMT (z3 QF_FPBV+UF) verdict per obligation", design="5/C05"),
 "C11": dict(engine=B, text="Bounded symbolic check: jaxprs of da_init/da_step/da_finalize and of the transition/start_epoch/end_epoch methods of the step-size adapting kernels are interpreted over z3 reals; z3 shows for all states, acceptance probabilities, times and (through the real lax.cond) all epoch types that one step equals the Hoffman-Gelman/Stan recurrence, is monotone in the acceptance probability, and that the tuning state is frozen outside adaptation epochs.",
             note="Real arithmetic (rounding outside the claim); exp/log/pow/sqrt uninterpreted with axioms; blackjax kernels stubbed; toy Dict model; one step from an arbitrary state (sequences follow by induction).",
             technique="jaxpr interpretation over z3 reals with Ackermannised UFs; z3/nlsat verdict per obligation", design="5/C11"),
 "C12": dict(engine=B, text="Bounded symbolic check: the jaxpr of the real HMC/NUTS _tune_slow/tune is interpreted over z3 reals with every history entry symbolic (T rows) for an enumerated family of key orders/shapes, diag and dense; z3 shows entry i equals the regularised sample (co)variance of flat coordinate i of ravel_pytree(position) and the step-size rescaling rule.",
             note="blackjax indexes the metric by ravel_pytree order; real arithmetic (float32 cancellation outside the claim); T<=4 rows, dimension<=5; key orders/shapes enumerated.",
             technique="jaxpr interpretation over z3 reals; polynomial identities decided by z3", design="5/C12"),

 "C02": dict(engine=B, text="Bounded symbolic check over an enumerated family of ten model programs built through the public API (regression with transformed scale, per_obs twin, weak intermediate variable, distribution node without variable, unflagged variable, degenerate-MVN prior, DistRegBuilder, user-supplied totals, auto-transform, pop-modify-rebuild): the jaxpr of LieselInterface.update_state with every input value symbolic is interpreted over z3 reals and z3 shows each distribution node equals the TFP density called directly, the three totals equal the flagged sums (or the user's node), the partition identity and per_obs invariance; plus a concrete build-coherence comparison.",
             note="TFP densities (and MultivariateNormalDegenerate, see C18) are the reference; lgamma/log/exp uninterpreted; penalties, ranks, design matrices concrete; shapes of the family.",
             technique="jaxpr interpretation over z3 reals; identities decided by z3 (simplifier/nlsat)", design="5/C02"),
 "C03": dict(engine=B, text="Bounded symbolic check: for each model program one jaxpr containing update_state on a used interface (after an arbitrary earlier call, incl. the same state object), on a fresh interface, direct assignment + full update on a private model copy, extract_position, log_prob and vmap(update_state) is interpreted over z3 reals with positions and states symbolic; z3 shows history independence, equivalence to direct assignment, put/get and the log-prob law; the same laws for the dict/dataclass/named-tuple interfaces; non-mutation and eager/jit agreement are concrete observations around the traced calls.",
             note="Input states coherent and complete (documented precondition), produced by update_state on a third interface from arbitrary inputs; two consecutive calls; vmap batch 2; eager/jit compared at one point.",
             technique="jaxpr interpretation over z3 reals; z3 verdict per obligation", design="5/C03"),
 "C06": dict(engine=B, text="Bounded symbolic check, modular: unit lemmas for iwls_utils.solve/mvn_log_prob/mvn_sample over symbolic lower-triangular factors (n<=2 quick, 3 thorough) and glue obligations over the traced IWLS/RW/MH _standard_transition with the callees re-bound to recording stubs and cholesky as a contract: information evaluated at x and x', solve/sampler/forward/backward density arguments, acceptance = min(1, exp(dlogpi + bwd - fwd)); JAX's autodiff gradient/Hessian matched against analytic ones; RW symmetric proposal in ravel order; MH user correction incl. all float32 values (+-inf) through an fp32 encoding.",
             note="Composition lemma+glue => MH ratio with the Gaussian IWLS proposal is a written argument (DESIGN.md); cholesky/normal sampler contracts; real arithmetic; Poisson-type target with non-diagonal information, user chol_info_fn stubbed.",
             technique="jaxpr interpretation with callee stubs (assume/guarantee) over z3 reals and Float32; z3/nlsat verdict per obligation", design="5/C06"),
 "C09": dict(engine=B, text="Bounded symbolic check: the jaxpr of the real KernelSequence.transition for six kernel sequences over a Liesel regression model (derived mean, report node, transformed scale) and a Dict model is compared cell by cell with the sequential composition of the individual kernels' transitions (draws aligned in order), untouched inputs are syntactically unchanged, and after accept and after reject every derived node incl. the stored log-probability equals a from-scratch evaluation on a private model copy.",
             note="One iteration from an arbitrary coherent state (induction over iterations); blackjax stubbed; draws paired in order of occurrence; real arithmetic.",
             technique="jaxpr interpretation over z3 reals, accept/reject case splits; z3/nlsat verdict per cell obligation", design="5/C09"),
 "C17": dict(engine=B, text="Bounded symbolic check: Model.simulate(seed, skip) followed by update() is traced as a function of the seed and all input values for an enumerated family of hierarchies (direct, via calculation, diamond with shared intermediate, per_obs=False, two-level with matrix shapes) x auto-update on/off x skip sets, the normal sampler stubbed per key term; z3 shows every non-skipped variable = loc(new ancestors) + scale(new ancestors) z, skipped variables unchanged, coherence after update; shapes and key distinctness are read off the encoding.",
             note="Location-scale (Normal) families; ideal PRNG; real arithmetic; from-scratch reference = Model.update on a second independently built model.",
             technique="jaxpr interpretation over z3 reals with sampler stubs; z3 verdict per obligation", design="5/C17"),
 "C18": dict(engine=B, text="Bounded symbolic check: AlgebraicSigmoid inverse/forward round trips and log-det-Jacobians against jax.grad of the real maps; GaussianCopula.log_prob against the closed-form copula density for every dependence in (-1,1) (ndtri uninterpreted), unit-variance base normal, and the constructor's validation asserts sliced from the current source; MultivariateNormalDegenerate constructors (from_penalty, from_penalty_smooth, supplied rank/log-pdet, plain precision) against the Gaussian density on the range space for concrete penalties with symbolic variance/evaluation point, null-space invariance for an arbitrary symmetric 2x2 precision, samples orthogonal to the null space.",
             note="Uniform marginals and the pseudo-inverse covariance of samples are integral/moment statements outside the claim; eigh as contract (exact table for concrete-penalty x scalar); float32 constant residue tolerated up to 1e-4.",
             technique="jaxpr interpretation over z3 reals (UF sqrt/log/ndtri, log expansion); z3/nlsat verdict per obligation", design="5/C18"),
 "C20": dict(engine=B, text="Bounded symbolic check: Stopper.stop_early/stop_now/continue_/which_best_in_recent_history in float32 for every loss history of length N (5 quick/6 thorough), every iteration index, patience 1..3 and arbitrary tolerances against the documented pseudo-code; the statements after optim_flat's while_loop (sliced from the source) with symbolic loss/position histories: best iteration in the final patience window and minimal, returned position = recorded row, consistent model state, history length/NaN padding; the captured loop body traced twice: permutation keys of consecutive iterations compared as datatype terms.",
             note="Known finding (open): the loop never advances its key, minibatches are not re-drawn. Boundary i in {p-1,p} of the stopper left open (ambiguous documentation); optax arithmetic and minibatch gathers are poison (not interpreted).",
             technique="jaxpr interpretation over z3 Float32 / reals / datatype terms, ast slicing of the real source; z3 verdict per obligation", design="5/C20"),
}
NA = {
 "C19": "numpy fancy indexing / pandas / pickle / xarray code: no jaxpr, and CrossHair realises every value crossing into those extensions (probe: not confirmed in 300 s for a 2x2 code matrix); a hand model of pandas would verify the model, not the code (DESIGN.md section 6).",
}
PENDING = "check not built yet in this round (planned, see DESIGN.md section 5)"
ALL = [f"C{i:02d}" for i in range(1, 21)]
m = dict(version=1, setup_cmd="./setup.sh",
         hooks=dict(guard="LIESEL_VERIF", enable="no hooks needed: harnesses re-bind module globals from outside; checks import liesel from $VERIF_REPO (default /repo)",
                    baseline_off_cmd="cd /repo && /venv/bin/python -m pytest -ra -q -p no:cacheprovider --timeout=900 --continue-on-collection-errors", source_commits=[], add_only=True),
         engines=[dict(name=B, path="vf/jx2smt.py", serves_properties=[k for k, v in CHECKS.items() if v["engine"] == B], kind_free_text="interpreter of jax.make_jaxpr output over z3 terms (real and float32 modes), Ackermannisation, z3/nlsat, replay on the real code"),
                  dict(name=A, path="vf/chrun.py", serves_properties=[k for k, v in CHECKS.items() if v["engine"] == A], kind_free_text="CrossHair symbolic execution of the real Python control code with a faked JAX environment")],
         checks=[], notes="Solver-based bounded checking; every result is 'holds for all values within the stated shapes/bounds'. Exit 0 pass, 1 VIOLATION (replayed on the real code), 2 inconclusive/harness error. See DESIGN.md.",
         not_applicable=[])
for pid in ALL:
    if pid in CHECKS:
        c = CHECKS[pid]
        m["checks"].append(dict(property_id=pid, quick_cmd=f"./check {pid} --tier quick", thorough_cmd=f"./check {pid} --tier thorough", evidence_file=f"evidence/{pid}.json",
                                replay_cmd_template=f"./check {pid} --replay {{path}}", engine=c["engine"],
                                level_claimed=dict(category=MC, text=c["text"], design_ref="DESIGN.md section " + c["design"]), level_note=c["note"], technique=c["technique"]))
    else:
        m["not_applicable"].append(dict(property_id=pid, reason=NA.get(pid, PENDING)))
json.dump(m, open(os.path.join(HERE, "MANIFEST.json"), "w"), indent=1)
print("checks:", [c["property_id"] for c in m["checks"]], "n/a:", [n["property_id"] for n in m["not_applicable"]])
