#!/bin/bash
# usage: tools/confirm_seed.sh C05 A   -> confirms demo passes clean / fails patched and the pinned suite passes with the patch
ID=$1; X=$2; W=/tmp/wt/$ID; S=/tmp/seedout/$ID/$X; OUT=/tmp/seedout/confirm/$ID.$X.txt
mkdir -p /tmp/seedout/confirm
cd $W || exit 9
git checkout -q -- . ; git clean -fdq
{
echo "== clean demo"; PYTHONPATH=$W timeout 1200 /venv/bin/python $S/demo.py > /tmp/seedout/confirm/$ID.$X.clean.log 2>&1; echo "rc_clean=$?"
git apply $S/patch.diff || echo "APPLY_FAILED"
echo "== patched demo"; PYTHONPATH=$W timeout 1200 /venv/bin/python $S/demo.py > /tmp/seedout/confirm/$ID.$X.patched.log 2>&1; echo "rc_patched=$?"
echo "== suite"; PYTHONPATH=$W timeout 1800 /venv/bin/python -m pytest -q -p no:cacheprovider -n 6 --timeout=900 2>&1 | tail -1
git checkout -q -- . ; git clean -fdq
git status --short | wc -l
} > $OUT 2>&1
cat $OUT | tr '\n' ' '; echo
