#!/bin/bash
# Build the overlay venv used by every check (offline; idempotent).
set -e
cd "$(dirname "$0")"
V=/verif/.venv
if [ ! -x $V/bin/python ] || ! $V/bin/python -c "import crosshair, z3, cvc5, jax" >/dev/null 2>&1; then
  rm -rf $V
  /venv/bin/python -m venv $V
  echo "import site; site.addsitedir('/venv/lib/python3.12/site-packages')" > $V/lib/python3.12/site-packages/base.pth
  PIP_NO_INDEX=1 $V/bin/pip install -q --no-index --find-links /opt/veriftools/wheels crosshair-tool z3-solver cvc5
fi
$V/bin/python -c "import crosshair, z3, cvc5, jax; print('overlay ok: z3', z3.get_version_string())"
mkdir -p /verif/evidence /verif/replays
