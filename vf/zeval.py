"""Numeric evaluation of z3 terms (real-mode and fp32-mode) under an environment of
concrete values: used for translator validation and for replaying solver models against
the real code.  Equalities between reals are compared with a relative tolerance."""
import math
from fractions import Fraction

import numpy as np
import z3

UF_IMPL = {
    "exp": lambda x: math.exp(x) if x < 700 else math.inf,
    "log": lambda x: math.log(x) if x > 0 else (-math.inf if x == 0 else math.nan),
    "sqrt": lambda x: math.sqrt(x) if x >= 0 else math.nan,
    "pow": lambda x, y: math.pow(x, y) if x > 0 or float(y).is_integer() else math.nan,
    "lgamma": lambda x: math.lgamma(x) if x > 0 else math.nan,
    "erf": math.erf, "erfc": math.erfc,
}


class NoValue(Exception):
    pass


class ZEval:
    def __init__(self, env, tol=1e-3, uf_impl=None, fp_exp=None):
        self.env = env            # z3 constant name -> python value
        self.tol = tol
        self.cache = {}
        self.uf = dict(UF_IMPL)
        if uf_impl:
            self.uf.update(uf_impl)

    def close(self, a, b):
        if isinstance(a, bool) or isinstance(b, bool):
            return bool(a) == bool(b)
        if isinstance(a, (np.float32,)) or isinstance(b, (np.float32,)):   # fp32 mode: structural equality
            a, b = np.float32(a), np.float32(b)
            if np.isnan(a) or np.isnan(b):
                return bool(np.isnan(a) and np.isnan(b))
            return bool(a == b and np.signbit(a) == np.signbit(b))
        if isinstance(a, int) and isinstance(b, int):
            return a == b
        a, b = float(a), float(b)
        if math.isnan(a) or math.isnan(b):
            return False
        if math.isinf(a) or math.isinf(b):
            return a == b
        return abs(a - b) <= self.tol * (1.0 + abs(a) + abs(b))

    def __call__(self, e):
        k = e.get_id()
        if k in self.cache:
            return self.cache[k]
        r = self._ev(e)
        self.cache[k] = r
        return r

    def _ev(self, e):
        if z3.is_int_value(e):
            return e.as_long()
        if z3.is_rational_value(e):
            return float(Fraction(e.numerator_as_long(), e.denominator_as_long()))
        if z3.is_algebraic_value(e):
            return float(e.approx(20).as_fraction())
        if z3.is_true(e):
            return True
        if z3.is_false(e):
            return False
        if z3.is_fp_value(e):
            return _fpval(e)
        if z3.is_bv_value(e):
            return e.as_long()
        if z3.is_fprm(e):
            return None
        if not z3.is_app(e):
            raise NoValue(str(e))
        d = e.decl()
        kind = d.kind()
        ch = e.children()
        if kind == z3.Z3_OP_UNINTERPRETED:
            nm = d.name()
            if d.arity() == 0:
                if nm in self.env:
                    return self.env[nm]
                raise NoValue(nm)
            f = self.uf.get(nm)
            if f is None:
                raise NoValue(f"uninterpreted function {nm}")
            args = [self(c) for c in ch]
            try:
                return f(*[float(a) for a in args])
            except (ValueError, OverflowError):
                return math.nan
        K = z3
        if kind == K.Z3_OP_ITE:
            return self(ch[1]) if self(ch[0]) else self(ch[2])
        if kind == K.Z3_OP_AND:
            return all(self(c) for c in ch)
        if kind == K.Z3_OP_OR:
            return any(self(c) for c in ch)
        if kind == K.Z3_OP_NOT:
            return not self(ch[0])
        if kind == K.Z3_OP_IMPLIES:
            return (not self(ch[0])) or self(ch[1])
        if kind == K.Z3_OP_XOR:
            return bool(self(ch[0])) != bool(self(ch[1]))
        if kind in (K.Z3_OP_EQ, K.Z3_OP_IFF):
            return self.close(self(ch[0]), self(ch[1]))
        if kind == K.Z3_OP_DISTINCT:
            v = [self(c) for c in ch]
            return all(not self.close(v[i], v[j]) for i in range(len(v)) for j in range(i))
        if kind == K.Z3_OP_ADD:
            return _sum(self(c) for c in ch)
        if kind == K.Z3_OP_SUB:
            v = [self(c) for c in ch]
            r = v[0]
            for x in v[1:]:
                r = r - x
            return r
        if kind == K.Z3_OP_UMINUS:
            return -self(ch[0])
        if kind == K.Z3_OP_MUL:
            r = 1
            for c in ch:
                r = r * self(c)
            return r
        if kind == K.Z3_OP_DIV:
            a, b = self(ch[0]), self(ch[1])
            if b == 0:
                return math.nan if a == 0 else math.copysign(math.inf, a)
            return a / b
        if kind == K.Z3_OP_IDIV:
            a, b = self(ch[0]), self(ch[1])
            return a // b if b > 0 else -(a // -b)
        if kind == K.Z3_OP_MOD:
            a, b = self(ch[0]), self(ch[1])
            return a % abs(b)
        if kind == K.Z3_OP_POWER:
            return self(ch[0]) ** self(ch[1])
        if kind == K.Z3_OP_TO_REAL:
            return self(ch[0])
        if kind == K.Z3_OP_TO_INT:
            return math.floor(self(ch[0]))
        if kind in (K.Z3_OP_LE, K.Z3_OP_LT, K.Z3_OP_GE, K.Z3_OP_GT):
            a, b = self(ch[0]), self(ch[1])
            return {K.Z3_OP_LE: a <= b, K.Z3_OP_LT: a < b, K.Z3_OP_GE: a >= b, K.Z3_OP_GT: a > b}[kind]
        # ---- floating point
        f32 = np.float32
        with np.errstate(all="ignore"):
            if kind == K.Z3_OP_FPA_ADD:
                return f32(f32(self(ch[1])) + f32(self(ch[2])))
            if kind == K.Z3_OP_FPA_SUB:
                return f32(f32(self(ch[1])) - f32(self(ch[2])))
            if kind == K.Z3_OP_FPA_MUL:
                return f32(f32(self(ch[1])) * f32(self(ch[2])))
            if kind == K.Z3_OP_FPA_DIV:
                return f32(f32(self(ch[1])) / f32(self(ch[2])))
            if kind == K.Z3_OP_FPA_SQRT:
                return f32(np.sqrt(f32(self(ch[1]))))
            if kind == K.Z3_OP_FPA_NEG:
                return f32(-f32(self(ch[0])))
            if kind == K.Z3_OP_FPA_ABS:
                return f32(abs(f32(self(ch[0]))))
            if kind in (K.Z3_OP_FPA_LT, K.Z3_OP_FPA_LE, K.Z3_OP_FPA_GT, K.Z3_OP_FPA_GE, K.Z3_OP_FPA_EQ):
                a, b = f32(self(ch[0])), f32(self(ch[1]))
                return bool({K.Z3_OP_FPA_LT: a < b, K.Z3_OP_FPA_LE: a <= b, K.Z3_OP_FPA_GT: a > b,
                             K.Z3_OP_FPA_GE: a >= b, K.Z3_OP_FPA_EQ: a == b}[kind])
            if kind == K.Z3_OP_FPA_IS_NAN:
                return bool(np.isnan(f32(self(ch[0]))))
            if kind == K.Z3_OP_FPA_IS_INF:
                return bool(np.isinf(f32(self(ch[0]))))
            if kind == K.Z3_OP_FPA_IS_ZERO:
                return bool(f32(self(ch[0])) == 0)
            if kind == K.Z3_OP_FPA_IS_NEGATIVE:
                return bool(np.signbit(f32(self(ch[0]))) and not np.isnan(f32(self(ch[0]))))
            if kind == K.Z3_OP_FPA_IS_POSITIVE:
                return bool(not np.signbit(f32(self(ch[0]))) and not np.isnan(f32(self(ch[0]))))
            if kind == K.Z3_OP_FPA_TO_FP:
                v = self(ch[-1])
                if z3.is_bv(ch[-1]):
                    return np.array([v], dtype=np.uint32).view(np.float32)[0]
                return f32(v)
            if kind == K.Z3_OP_FPA_MIN:
                return f32(min(f32(self(ch[0])), f32(self(ch[1]))))
            if kind == K.Z3_OP_FPA_MAX:
                return f32(max(f32(self(ch[0])), f32(self(ch[1]))))
        # ---- bit-vectors (32 bit words of the PRNG)
        if kind == K.Z3_OP_BLSHR:
            return (self(ch[0]) >> self(ch[1])) & 0xFFFFFFFF
        if kind == K.Z3_OP_BOR:
            return self(ch[0]) | self(ch[1])
        if kind == K.Z3_OP_BAND:
            return self(ch[0]) & self(ch[1])
        if kind == K.Z3_OP_BV2INT:
            return self(ch[0])
        raise NoValue(f"unsupported operator {d.name()} in numeric evaluation")


def _sum(it):
    r = 0
    for x in it:
        r = r + x
    return r


def _fpval(e):
    if e.isNaN():
        return np.float32(np.nan)
    if e.isInf():
        return np.float32(-np.inf if e.isNegative() else np.inf)
    if e.isZero():
        return np.float32(-0.0 if e.isNegative() else 0.0)
    s = e.sign()
    sig = e.significand_as_long()
    ex = e.exponent_as_long(biased=True)
    bits = ((1 if s else 0) << 31) | ((ex & 0xFF) << 23) | (sig & 0x7FFFFF)
    return np.array([bits], dtype=np.uint32).view(np.float32)[0]


def model_value(m, v, default=None):
    """python value of constant `v` in z3 model `m` (None if unassigned)"""
    x = m.eval(v, model_completion=False)
    if x.eq(v):
        return default
    if z3.is_int_value(x):
        return x.as_long()
    if z3.is_rational_value(x):
        return float(Fraction(x.numerator_as_long(), x.denominator_as_long()))
    if z3.is_algebraic_value(x):
        return float(x.approx(20).as_fraction())
    if z3.is_true(x):
        return True
    if z3.is_false(x):
        return False
    if z3.is_fp_value(x):
        return _fpval(x)
    if z3.is_bv_value(x):
        return x.as_long()
    return default
