"""Engine B: interpret a jaxpr (traced from the real liesel code) over z3 terms.

A value is a concrete numpy array or a numpy object array whose cells are z3 terms
(or KeyTerm/KeyWord for PRNG keys, Poison, NonFinite).  See DESIGN.md section 2.
"""
from __future__ import annotations

import itertools
import math
from fractions import Fraction

import jax
import jax.numpy as jnp
import numpy as np
import z3


class Unsupported(Exception):
    pass


STRUCTURAL = {"broadcast_in_dim", "reshape", "squeeze", "expand_dims", "transpose", "slice", "rev", "concatenate", "pad",
              "gather", "dynamic_slice", "dynamic_update_slice", "scatter", "select_n", "copy", "copy_p", "stop_gradient",
              "random_wrap", "random_unwrap", "random_split", "random_bits", "random_fold_in", "convert_element_type"}


def is_sym(a):
    return isinstance(a, np.ndarray) and a.dtype == object


class Interp:
    """mode 'real': floats are z3 Reals, ints z3 Ints.  mode 'fp32': floats Float32."""

    def __init__(self, mode="real", poison_ok=False, chol="explicit", memo=None, tag="", finite_uf=False, ext_real=False):
        self.ext_real = ext_real      # real mode: +-inf / nan constants take part in arithmetic by the IEEE rules (symbolic terms are finite reals)
        self.mode = mode
        self.finite_uf = finite_uf    # real mode: `is_finite(x)` is an arbitrary predicate of x (error paths for non-finite values become reachable)
        self.poison_ok = poison_ok
        self.poisoned = []
        self.chol = chol          # "explicit": written-out factorisation (n<=3); "contract": L L^T = A stub
        self.memo = memo          # shared dict: draws memoised by key term ("same key => same draw")
        self.tag = tag
        self.calls = []           # verif_stub records: (name, [arg arrays], [out arrays])
        self.draws = []           # PRNG stub records
        self.chols = []
        self.eigs = []
        self.normals = []
        self.stub_out = {}
        self.stub_in = {}
        self.side = []  # side constraints (definitions of sqrt, stubs contracts)
        self.assumed = []  # assumptions introduced by primitives (e.g. chol needs PD)
        self.fresh_ctr = itertools.count()
        self.stubs = []  # log of stubbed things
        R = z3.RealSort()
        self.R = R
        if mode == "real":
            self.F = R
        else:
            self.F = z3.Float32()
        self.uf = {}
        self.log_terms = []
        self.exp_terms = []
        self.defined = []  # definedness obligations (guards of non-finite constants must be false, ...)

    # ---------------------------------------------------------------- helpers
    def fresh(self, name, sort=None):
        sort = self.F if sort is None else sort
        return z3.Const(f"{name}{self.tag}!{next(self.fresh_ctr)}", sort)

    def fn(self, name, *sorts):
        if name not in self.uf:
            self.uf[name] = z3.Function(name, *sorts)
        return self.uf[name]

    def fconst(self, x):
        x = float(x)
        if self.mode == "real":
            if math.isinf(x) or math.isnan(x):
                return NonFinite(x)
            fr = Fraction(x).limit_denominator(10**9) if False else Fraction(x)
            return z3.RealVal(f"{fr.numerator}/{fr.denominator}")
        return z3.FPVal(x, self.F)

    def lift(self, a, dtype=None):
        """concrete numpy -> object array of z3 values"""
        if is_sym(a):
            return a
        a = np.asarray(a)
        out = np.empty(a.shape, dtype=object)
        flat = a.reshape(-1)
        o = out.reshape(-1)
        for i, v in enumerate(flat):
            if a.dtype == bool:
                o[i] = z3.BoolVal(bool(v))
            elif np.issubdtype(a.dtype, np.integer):
                o[i] = z3.IntVal(int(v))
            else:
                o[i] = self.fconst(v)
        return out.reshape(a.shape) if a.shape else out.reshape(())

    def ew(self, f, *arrs):
        arrs = [self.lift(a) for a in arrs]
        arrs = np.broadcast_arrays(*arrs)
        out = np.empty(arrs[0].shape, dtype=object)
        its = [a.reshape(-1) for a in arrs]
        o = out.reshape(-1)
        for i in range(o.shape[0]):
            vals = [it[i] for it in its]
            if any(isinstance(v, Poison) for v in vals):
                o[i] = Poison("propagated"); continue
            if any(isinstance(v, NonFinite) for v in vals) and getattr(f, "__name__", "") not in ("sel", "fmax", "fmin") and not getattr(self, "_nf_ok", False) and not self.ext_real:
                raise Unsupported(f"arithmetic on non-finite constant in real mode ({getattr(f, '__name__', f)})")
            o[i] = f(*vals)
        return out

    # ------------------------------------------------------------ arithmetic
    def _is_int(self, x):
        return z3.is_int(x)

    def _coerce(self, x, y):
        if self.mode == "real":
            return x, y
        return x, y

    # extended reals (ext_real): a NonFinite operand meets a finite real term
    def _sign(self, t):
        """sign of a finite operand if it is decided syntactically, else None"""
        if isinstance(t, (int, float, np.floating, np.integer)):
            return (t > 0) - (t < 0)
        t = z3.simplify(t)
        if z3.is_rational_value(t) or z3.is_int_value(t):
            fr = t.as_fraction() if z3.is_rational_value(t) else Fraction(t.as_long())
            return (fr > 0) - (fr < 0)
        return None

    def _nf(self, op, x, y=None):
        nan, inf = float("nan"), float("inf")
        xv = x.x if isinstance(x, NonFinite) else None
        yv = y.x if isinstance(y, NonFinite) else None
        if (xv is not None and math.isnan(xv)) or (yv is not None and math.isnan(yv)):
            return z3.BoolVal(op == "ne") if op in ("lt", "le", "gt", "ge", "eq", "ne") else NonFinite(nan)
        if op == "neg":
            return NonFinite(-xv)
        if op == "exp":
            return self.fconst(0.0) if xv < 0 else NonFinite(inf)
        if op == "log":
            return NonFinite(inf) if xv > 0 else NonFinite(nan)
        if op == "sub":
            return self._nf("add", x, self.neg(y) if yv is None else NonFinite(-yv))
        if op == "add":
            if xv is not None and yv is not None:
                return NonFinite(xv) if xv == yv else NonFinite(nan)
            return NonFinite(xv if xv is not None else yv)
        if op in ("mul", "div"):
            if xv is not None and yv is not None:
                return NonFinite(xv * yv) if op == "mul" else NonFinite(nan)
            if op == "div" and yv is not None:
                return self.fconst(0.0)
            other = y if xv is not None else x
            sg = self._sign(other)
            if sg is None:
                raise Unsupported(f"extended reals: {op} of an infinite constant with a term of undecided sign")
            v = xv if xv is not None else yv
            if sg == 0:
                return NonFinite(nan) if op == "mul" else NonFinite(v)     # inf * 0 = nan ; inf / (+0) = inf
            return NonFinite(v * sg)
        if op in ("lt", "le", "gt", "ge", "eq", "ne"):
            a = xv if xv is not None else 0.0     # a finite operand compares like 0 against an infinite one
            b = yv if yv is not None else 0.0
            return z3.BoolVal({"lt": a < b, "le": a <= b, "gt": a > b, "ge": a >= b, "eq": a == b, "ne": a != b}[op])
        raise Unsupported(f"extended reals: {op}")

    def _isnf(self, *xs):
        return self.ext_real and any(isinstance(x, NonFinite) for x in xs)

    def add(self, x, y):
        if self._isnf(x, y):
            return self._nf("add", x, y)
        if self.mode == "fp32" and z3.is_fp(x):
            return z3.fpAdd(z3.RNE(), x, y)
        return x + y

    def sub(self, x, y):
        if self._isnf(x, y):
            return self._nf("sub", x, y)
        if self.mode == "fp32" and z3.is_fp(x):
            return z3.fpSub(z3.RNE(), x, y)
        return x - y

    def mul(self, x, y):
        if self._isnf(x, y):
            return self._nf("mul", x, y)
        if self.mode == "fp32" and z3.is_fp(x):
            return z3.fpMul(z3.RNE(), x, y)
        if z3.is_bool(x):
            return z3.And(x, y)
        return x * y

    def div(self, x, y):
        if self._isnf(x, y):
            return self._nf("div", x, y)
        if self.mode == "fp32" and z3.is_fp(x):
            return z3.fpDiv(z3.RNE(), x, y)
        if z3.is_int(x) and z3.is_int(y):
            # lax.div on ints truncates toward zero
            q = self.fresh("idiv", z3.IntSort())
            self.side.append(z3.If(y > 0,
                                   z3.If(x >= 0, z3.And(q * y <= x, x < q * y + y), z3.And(q * y >= x, x > q * y - y)),
                                   z3.If(x >= 0, z3.And(q * y <= x, x < q * y - y), z3.And(q * y >= x, x > q * y + y))))
            return q
        return x / y

    def neg(self, x):
        if self._isnf(x):
            return self._nf("neg", x)
        if self.mode == "fp32" and z3.is_fp(x):
            return z3.fpNeg(x)
        return -x

    def exp(self, x):
        if self._isnf(x):
            return self._nf("exp", x)
        t = self.fn("exp", self.F, self.F)(x)
        self.exp_terms.append((x, t))
        return t

    def log(self, x):
        if self._isnf(x):
            return self._nf("log", x)
        if self.ext_real and self.mode == "real" and z3.is_expr(x) and self._sign(x) == 0:
            return NonFinite(float("-inf"))
        t = self.fn("log", self.F, self.F)(x)
        self.log_terms.append((x, t))
        return t

    def sqrt(self, x):
        if self.mode == "fp32":
            return z3.fpSqrt(z3.RNE(), x)
        s = self.fn("sqrt", self.F, self.F)(x)
        # defined for x >= 0 only; otherwise unconstrained (NaN in floats)
        self.side.append(z3.Implies(x >= 0, z3.And(s >= 0, s * s == x)))
        return s

    def cmp(self, op, x, y):
        if isinstance(x, NonFinite) or isinstance(y, NonFinite):
            # a symbolic real is finite: comparing it with an infinite / NaN constant is decided (also without the ext_real option)
            return self._nf(op, x, y)
        if self.mode == "real" and z3.is_expr(x) and z3.is_expr(y) and x.eq(y):
            return z3.BoolVal(op in ("le", "ge", "eq"))
        if self.mode == "fp32" and z3.is_fp(x):
            return {"lt": z3.fpLT, "le": z3.fpLEQ, "gt": z3.fpGT, "ge": z3.fpGEQ,
                    "eq": z3.fpEQ, "ne": lambda a, b: z3.Not(z3.fpEQ(a, b))}[op](x, y)
        return {"lt": lambda a, b: a < b, "le": lambda a, b: a <= b, "gt": lambda a, b: a > b,
                "ge": lambda a, b: a >= b, "eq": lambda a, b: a == b, "ne": lambda a, b: a != b}[op](x, y)

    def _nf_minmax(self, x, y, is_max):
        """max/min against an infinite constant in real mode"""
        a, b = (x, y) if isinstance(x, NonFinite) else (y, x)      # a is the non-finite one
        if math.isnan(a.x):
            raise Unsupported("max/min with a NaN constant in real mode")
        if isinstance(b, NonFinite):
            if math.isnan(b.x):
                raise Unsupported("max/min with a NaN constant in real mode")
            return NonFinite(max(a.x, b.x) if is_max else min(a.x, b.x))
        if (a.x > 0) == is_max:
            return a          # max(+inf, b) = +inf ; min(-inf, b) = -inf
        return b              # max(-inf, b) = b    ; min(+inf, b) = b

    def fmax(self, x, y):
        if isinstance(x, NonFinite) or isinstance(y, NonFinite):
            return self._nf_minmax(x, y, True)
        if self.mode == "fp32" and z3.is_fp(x):
            # jax max propagates NaN
            return z3.If(z3.fpIsNaN(x), x, z3.If(z3.fpIsNaN(y), y, z3.If(z3.fpGEQ(x, y), x, y)))
        return z3.If(x >= y, x, y)

    def fmin(self, x, y):
        if isinstance(x, NonFinite) or isinstance(y, NonFinite):
            return self._nf_minmax(x, y, False)
        if self.mode == "fp32" and z3.is_fp(x):
            return z3.If(z3.fpIsNaN(x), x, z3.If(z3.fpIsNaN(y), y, z3.If(z3.fpLEQ(x, y), x, y)))
        return z3.If(x <= y, x, y)

    def to_float(self, x):
        if z3.is_bool(x):
            x = z3.If(x, z3.IntVal(1), z3.IntVal(0))
        if self.mode == "real":
            return z3.ToReal(x) if z3.is_int(x) else x
        if z3.is_fp(x):
            return x
        if z3.is_int(x):
            return z3.fpToFP(z3.RNE(), z3.ToReal(x), self.F)
        return z3.fpToFP(z3.RNE(), x, self.F)

    def to_int(self, x):
        if z3.is_bool(x):
            xs = z3.simplify(x)
            if z3.is_true(xs): return z3.IntVal(1)
            if z3.is_false(xs): return z3.IntVal(0)
            return z3.If(x, z3.IntVal(1), z3.IntVal(0))
        if z3.is_int(x):
            return x
        if z3.is_bv(x):
            return z3.BV2Int(x)
        if z3.is_fp(x):
            # float32 -> int32: truncation toward zero, as a signed 32-bit vector (out-of-range values are unspecified in z3 as in XLA)
            return z3.fpToSBV(z3.RTZ(), x, z3.BitVecSort(32))
        if z3.is_real(x):
            # XLA converts float -> integer by truncation toward zero (values outside the integer range are outside the claim)
            return z3.If(x >= 0, z3.ToInt(x), -z3.ToInt(-x))
        raise Unsupported("float->int conversion")

    # ------------------------------------------------------------- structure
    def structural(self, prim, params, operands, sym_positions):
        """Apply a data-movement primitive by running it on integer ids."""
        ids = []
        pools = []
        off = 0
        args = []
        for k, a in enumerate(operands):
            if k in sym_positions:
                a = self.lift(a)
                n = a.size
                idarr = (np.arange(n, dtype=np.int32) + off).reshape(a.shape)
                pools.append(a.reshape(-1))
                off += n
                args.append(jnp.asarray(idarr))
            else:
                args.append(jnp.asarray(a))
        pool = np.concatenate(pools) if pools else np.empty(0, dtype=object)
        out = prim.bind(*args, **params)
        multiple = prim.multiple_results
        outs = out if multiple else [out]
        res = []
        for o in outs:
            o = np.asarray(o)
            r = np.empty(o.shape, dtype=object)
            rf = r.reshape(-1)
            for i, idx in enumerate(o.reshape(-1)):
                rf[i] = pool[int(idx)]
            res.append(r)
        return res if multiple else res[0]

    # ----------------------------------------------------------------- eval
    def eval_closed(self, closed, *args):
        return self.eval_jaxpr(closed.jaxpr, closed.consts, *args)

    def eval_jaxpr(self, jaxpr, consts, *args):
        env = {}

        def read(v):
            if isinstance(v, jax.core.Literal):
                # weak-typed python scalars become values of the equation's dtype (float32) at run time
                return np.asarray(v.val, dtype=v.aval.dtype) if hasattr(v.aval, "dtype") else np.asarray(v.val)
            return env[v]

        def write(v, val):
            env[v] = val

        for v, c in zip(jaxpr.constvars, consts):
            write(v, np.asarray(c) if not is_sym(c) else c)
        assert len(jaxpr.invars) == len(args), (len(jaxpr.invars), len(args))
        for v, a in zip(jaxpr.invars, args):
            write(v, a)
        for eqn in jaxpr.eqns:
            invals = [read(v) for v in eqn.invars]
            outs = self.eval_eqn(eqn, invals)
            if not eqn.primitive.multiple_results:
                outs = [outs]
            for v, o in zip(eqn.outvars, outs):
                write(v, o)
        return [read(v) for v in jaxpr.outvars]

    def eval_eqn(self, eqn, invals):
        prim = eqn.primitive
        name = prim.name
        params = eqn.params
        anysym = any(is_sym(a) for a in invals)
        key_like = False
        if not anysym and not key_like and name not in ("random_bits", "random_wrap", "random_split",
                                                       "random_unwrap", "random_fold_in", "random_seed"):
            # concrete evaluation with the real primitive
            if name == "pjit":
                return self.eval_closed(params["jaxpr"], *invals)
            if name in ("cond", "while", "scan", "custom_jvp_call", "custom_vjp_call", "custom_vjp_call_jaxpr"):
                pass  # fall through to symbolic handlers (they handle concrete too)
            else:
                out = prim.bind(*[jnp.asarray(a) for a in invals], **params)
                if prim.multiple_results:
                    return [np.asarray(o) for o in out]
                return np.asarray(out)
        h = getattr(self, "p_" + name.replace("-", "_"), None)
        try:
            if h is None:
                raise Unsupported(f"primitive {name}")
            if any(is_sym(a) and any(isinstance(c, Poison) for c in a.reshape(-1)) for a in invals) and name not in STRUCTURAL and name not in ("pjit", "scan", "cond", "while", "custom_jvp_call", "custom_vjp_call", "closed_call"):
                raise Unsupported(f"poisoned operand of {name}")
            return h(eqn, invals)
        except Unsupported as ex:
            if not self.poison_ok:
                raise
            outs = []
            for ov in eqn.outvars:
                o = np.empty(ov.aval.shape, dtype=object)
                for i in np.ndindex(*ov.aval.shape): o[i] = Poison(str(ex))
                outs.append(o)
            self.poisoned.append(str(ex))
            return outs if prim.multiple_results else outs[0]

    # elementwise
    def p_add(self, e, a): return self.ew(self.add, *a)
    def p_add_any(self, e, a): return self.ew(self.add, *a)
    def p_sub(self, e, a): return self.ew(self.sub, *a)
    def p_mul(self, e, a): return self.ew(self.mul, *a)
    def p_div(self, e, a): return self.ew(self.div, *a)
    def p_neg(self, e, a): return self.ew(self.neg, *a)
    def p_exp(self, e, a): return self.ew(self.exp, *a)
    def p_log(self, e, a): return self.ew(self.log, *a)
    def p_sqrt(self, e, a): return self.ew(self.sqrt, *a)
    def p_max(self, e, a): return self.ew(self.fmax, *a)
    def p_min(self, e, a): return self.ew(self.fmin, *a)
    def p_lt(self, e, a): return self.ew(self._cmpf("lt"), *a)
    def p_le(self, e, a): return self.ew(self._cmpf("le"), *a)
    def p_gt(self, e, a): return self.ew(self._cmpf("gt"), *a)
    def p_ge(self, e, a): return self.ew(self._cmpf("ge"), *a)
    def p_eq(self, e, a): return self.ew(self._cmpf("eq"), *a)
    def p_ne(self, e, a): return self.ew(self._cmpf("ne"), *a)
    def _cmpf(self, op):
        def sel(x, y):            # named `sel`: ew lets non-finite constants through to cmp, which decides them
            return self.cmp(op, x, y)
        return sel

    def p_and(self, e, a): return self.ew(lambda x, y: z3.And(x, y) if z3.is_bool(x) else x & y, *a)
    def p_or(self, e, a): return self.ew(lambda x, y: z3.Or(x, y) if z3.is_bool(x) else x | y, *a)
    def p_not(self, e, a): return self.ew(lambda x: z3.Not(x), *a)
    def p_abs(self, e, a): return self.ew(lambda x: z3.If(x >= 0, x, -x) if not z3.is_fp(x) else z3.fpAbs(x), *a)
    def p_sign(self, e, a): return self.ew(lambda x: z3.If(x > 0, self.fconst(1), z3.If(x < 0, self.fconst(-1), self.fconst(0))), *a)
    def p_stop_gradient(self, e, a): return a[0]
    def p_copy(self, e, a): return a[0]
    def p_copy_p(self, e, a): return a[0]

    def p_log1p(self, e, a): return self.ew(lambda x: self.log(self.add(self.fconst(1), x)), *a)
    def p_expm1(self, e, a): return self.ew(lambda x: self.sub(self.exp(x), self.fconst(1)), *a)
    def p_logistic(self, e, a): return self.ew(lambda x: self.div(self.fconst(1), self.add(self.fconst(1), self.exp(self.neg(x)))), *a)
    def p_erf_inv(self, e, a): return self.ew(lambda x: self.fn("erf_inv", self.F, self.F)(x), *a)
    def p_lgamma(self, e, a): return self.ew(lambda x: self.fn("lgamma", self.F, self.F)(x), *a)
    def p_erfc(self, e, a): return self.ew(lambda x: self.fn("erfc", self.F, self.F)(x), *a)
    def p_erf(self, e, a): return self.ew(lambda x: self.fn("erf", self.F, self.F)(x), *a)
    def p_ndtri(self, e, a): return self.ew(lambda x: self.fn("ndtri", self.F, self.F)(x), *a)

    def p_is_finite(self, e, a):
        if self.mode == "real":
            if self.finite_uf:
                fin = z3.Function("is_finite", z3.RealSort(), z3.BoolSort())
                return self.ew(lambda x: z3.BoolVal(not isinstance(x, NonFinite)) if (isinstance(x, NonFinite) or not z3.is_expr(x) or z3.is_rational_value(x)) else fin(x), *a)
            return self.ew(lambda x: z3.BoolVal(not isinstance(x, NonFinite)), *a)
        return self.ew(lambda x: z3.And(z3.Not(z3.fpIsNaN(x)), z3.Not(z3.fpIsInf(x))), *a)

    def p_square(self, e, a): return self.ew(lambda x: self.mul(x, x), *a)
    def p_rsqrt(self, e, a): return self.ew(lambda x: self.div(self.fconst(1), self.sqrt(x)), *a)

    def p_integer_pow(self, e, a):
        y = e.params["y"]

        def f(x):
            if y == 0:
                return self.fconst(1)
            r = x
            for _ in range(abs(y) - 1):
                r = self.mul(r, x)
            return r if y > 0 else self.div(self.fconst(1), r)
        return self.ew(f, *a)

    def p_pow(self, e, a):
        def f(x, y):
            # x ** y == exp(y * log x) for x > 0 ; keep as UF otherwise
            return self.fn("pow", self.F, self.F, self.F)(self.to_float(x), self.to_float(y))
        return self.ew(f, *a)

    def p_select_n(self, e, a):
        which, *cases = a
        if len(cases) != 2:
            raise Unsupported("select_n with != 2 cases")
        if not is_sym(which):
            w = np.asarray(which)
            cs = np.broadcast_arrays(*[self.lift(c) for c in cases], np.empty(w.shape))[:-1]
            out = np.empty(cs[0].shape, dtype=object)
            wb = np.broadcast_to(w, out.shape)
            for i in np.ndindex(*out.shape):
                out[i] = cs[int(wb[i])][i]
            return out

        def sel(w, c0, c1):
            w = z3.simplify(w if z3.is_bool(w) else w != 0)
            if z3.is_true(w): return c1
            if z3.is_false(w): return c0
            if isinstance(c1, NonFinite):
                self.defined.append(z3.Not(w)); return c0
            if isinstance(c0, NonFinite):
                self.defined.append(w); return c1
            return z3.If(w, c1, c0)
        return self.ew(sel, which, *cases)

    def p_clamp(self, e, a):
        lo, x, hi = a
        return self.ew(lambda l, v, h: self.fmin(self.fmax(v, l), h), lo, x, hi)

    def p_convert_element_type(self, e, a):
        nd = np.dtype(e.params["new_dtype"])
        if np.issubdtype(nd, np.floating):
            return self.ew(self.to_float, *a)
        if np.issubdtype(nd, np.integer):
            return self.ew(self.to_int, *a)
        if nd == bool:
            return self.ew(lambda x: x if z3.is_bool(x) else x != 0, *a)
        raise Unsupported(f"convert to {nd}")

    # structural
    def _struct(self, e, a, sym=(0,)):
        return self.structural(e.primitive, e.params, a, set(sym))

    def p_broadcast_in_dim(self, e, a): return self._struct(e, a)
    def p_reshape(self, e, a): return self._struct(e, a)
    def p_squeeze(self, e, a): return self._struct(e, a)
    def p_expand_dims(self, e, a): return self._struct(e, a)
    def p_transpose(self, e, a): return self._struct(e, a)
    def p_slice(self, e, a): return self._struct(e, a)
    def p_rev(self, e, a): return self._struct(e, a)

    def p_concatenate(self, e, a):
        return self.structural(e.primitive, e.params, a, set(range(len(a))))

    def p_pad(self, e, a):
        return self.structural(e.primitive, e.params, a, {0, 1})

    def p_gather(self, e, a):
        if is_sym(a[1]):
            raise Unsupported("gather with symbolic indices")
        return self.structural(e.primitive, e.params, a, {0})

    def p_dynamic_slice(self, e, a):
        op, *starts = a
        if any(is_sym(s) for s in starts):
            return self._dyn_slice_sym(e, op, starts)
        return self.structural(e.primitive, e.params, a, {0})

    def _dyn_slice_sym(self, e, op, starts):
        """dynamic_slice with symbolic start indices: an if-then-else chain over the clamped range
        of each symbolic index (XLA clamps start indices so that the slice stays in bounds)"""
        op = self.lift(op)
        sizes = tuple(e.params["slice_sizes"])

        def rec(arr, axis):
            if axis == arr.ndim:
                return arr
            n, p = arr.shape[axis], sizes[axis]
            st = starts[axis]
            if not is_sym(st):
                s0 = int(np.clip(int(np.asarray(st)), 0, n - p))
                return rec(np.take(arr, range(s0, s0 + p), axis=axis), axis + 1)
            s = self.lift(st).reshape(-1)[0]
            cands = [rec(np.take(arr, range(c, c + p), axis=axis), axis + 1) for c in range(0, n - p + 1)]
            out = cands[-1]
            for c in range(n - p - 1, -1, -1):
                cond = (s <= c) if c == 0 else (s == c)
                out = self.ew(lambda a_, b_, cond=cond: a_ if (z3.is_expr(a_) and z3.is_expr(b_) and a_.eq(b_)) else z3.If(cond, a_, b_), cands[c], out)
            return out
        return rec(op, 0)

    def p_dynamic_update_slice(self, e, a):
        op, upd, *starts = a
        if any(is_sym(s) for s in starts):
            raise Unsupported("dynamic_update_slice symbolic index")
        return self.structural(e.primitive, e.params, a, {0, 1})

    def p_scatter(self, e, a):
        op, idx, upd = a
        if is_sym(idx):
            raise Unsupported("scatter symbolic index")
        return self.structural(e.primitive, e.params, a, {0, 2})

    def p_scatter_add(self, e, a):
        # out = op with upd added at indices: do scatter of ids then add
        op, idx, upd = a
        if is_sym(idx):
            raise Unsupported("scatter-add symbolic index")
        op = self.lift(op); upd = self.lift(upd)
        # positions: run scatter on ids of -1 (keep) / upd ids
        n = upd.size
        base = -np.ones(op.shape, dtype=np.int32)
        updids = np.arange(n, dtype=np.int32).reshape(upd.shape)
        # scatter (overwrite) loses duplicates; handle by per-element scatter
        out = op.copy()
        for k in range(n):
            mask_upd = np.zeros(upd.shape, dtype=np.int32); mask_upd.reshape(-1)[k] = 1
            pos = jax.lax.scatter_add_p.bind(jnp.zeros(op.shape, jnp.int32), jnp.asarray(idx), jnp.asarray(mask_upd), **e.params)
            pos = np.asarray(pos)
            for i in np.argwhere(pos.reshape(-1) != 0).reshape(-1):
                out.reshape(-1)[i] = self.add(out.reshape(-1)[i], upd.reshape(-1)[k])
        return out

    def p_iota(self, e, a):
        return np.asarray(e.primitive.bind(**e.params))

    # reductions
    def _reduce(self, e, a, f, init=None):
        x = self.lift(a[0])
        axes = tuple(e.params["axes"])
        if not axes:
            return x
        keep = [d for d in range(x.ndim) if d not in axes]
        xt = np.transpose(x, keep + list(axes))
        kshape = xt.shape[: len(keep)]
        xt = xt.reshape(kshape + (-1,))
        out = np.empty(kshape, dtype=object)
        for idx in np.ndindex(*kshape):
            vals = list(xt[idx])
            if not vals:
                out[idx] = init
            else:
                r = vals[0]
                for v in vals[1:]:
                    r = f(r, v)
                out[idx] = r
        return out

    def p_reduce_sum(self, e, a): return self._reduce(e, a, self.add)
    def p_reduce_max(self, e, a): return self._reduce(e, a, self.fmax)
    def p_reduce_min(self, e, a): return self._reduce(e, a, self.fmin)
    def p_reduce_and(self, e, a): return self._reduce(e, a, lambda x, y: z3.And(x, y))
    def p_reduce_or(self, e, a): return self._reduce(e, a, lambda x, y: z3.Or(x, y))
    def p_reduce_prod(self, e, a): return self._reduce(e, a, self.mul)

    def p_argmin(self, e, a):
        x = self.lift(a[0])
        if x.ndim != 1:
            raise Unsupported("argmin nd")
        # first index attaining the minimum
        best, bi = x[0], z3.IntVal(0)
        for i in range(1, x.shape[0]):
            c = self.cmp("lt", x[i], best)
            bi = z3.If(c, z3.IntVal(i), bi)
            best = z3.If(c, x[i], best)
        return np.array(bi, dtype=object).reshape(())

    def p_cumsum(self, e, a):
        x = self.lift(a[0]); ax = e.params["axis"]
        out = x.copy()
        xs = np.moveaxis(out, ax, 0)
        for i in range(1, xs.shape[0]):
            xs[i] = self.ew(self.add, xs[i - 1], xs[i])
        return out

    def p_dot_general(self, e, a):
        (lc, rc), (lb, rb) = e.params["dimension_numbers"]
        x, y = self.lift(a[0]), self.lift(a[1])
        # move batch dims first, contract dims last (lhs) / first after batch (rhs)
        lfree = [d for d in range(x.ndim) if d not in lc and d not in lb]
        rfree = [d for d in range(y.ndim) if d not in rc and d not in rb]
        xt = np.transpose(x, list(lb) + lfree + list(lc))
        yt = np.transpose(y, list(rb) + list(rc) + rfree)
        bshape = xt.shape[: len(lb)]
        lf = xt.shape[len(lb): len(lb) + len(lfree)]
        cs = xt.shape[len(lb) + len(lfree):]
        rf = yt.shape[len(rb) + len(rc):]
        xt = xt.reshape(bshape + (int(np.prod(lf, dtype=int)), int(np.prod(cs, dtype=int))))
        yt = yt.reshape(bshape + (int(np.prod(cs, dtype=int)), int(np.prod(rf, dtype=int))))
        out = np.empty(bshape + (xt.shape[-2], yt.shape[-1]), dtype=object)
        for b in np.ndindex(*bshape):
            for i in range(xt.shape[-2]):
                for j in range(yt.shape[-1]):
                    acc = None
                    for k in range(xt.shape[-1]):
                        t = self.mul(self.to_float(xt[b + (i, k)]) if not z3.is_int(xt[b + (i, k)]) or not z3.is_int(yt[b + (k, j)]) else xt[b + (i, k)],
                                     self.to_float(yt[b + (k, j)]) if not z3.is_int(xt[b + (i, k)]) or not z3.is_int(yt[b + (k, j)]) else yt[b + (k, j)])
                        acc = t if acc is None else self.add(acc, t)
                    out[b + (i, j)] = acc if acc is not None else self.fconst(0)
        return out.reshape(bshape + lf + rf)

    # linear algebra (small)
    def p_cholesky(self, e, a):
        A = self.lift(a[0])
        if A.ndim > 2:        # batched (vmap): factorise every matrix of the batch
            out = np.empty(A.shape, dtype=object)
            for idx in np.ndindex(*A.shape[:-2]):
                out[idx] = self.p_cholesky(e, [A[idx]])
            return out
        n = A.shape[-1]
        if self.chol == "contract":
            if A.ndim != 2:
                raise Unsupported("cholesky batched")
            def _same(u, v):
                return (u is v) or (z3.is_expr(u) and z3.is_expr(v) and (u.eq(v) or z3.simplify(u).eq(z3.simplify(v))))
            for A0, L0 in self.chols:       # the factor is a function of the matrix: the same argument (term by term) gets the same factor
                if A0.shape == A.shape and all(_same(A0[i, j], A[i, j]) for i in range(n) for j in range(n)):
                    return L0
            t = len(self.chols)
            L = np.empty((n, n), dtype=object)
            for i in range(n):
                for j in range(n):
                    L[i, j] = z3.Real(f"chol{self.tag}{t}_{i}{j}") if j <= i else z3.RealVal(0)
            for i in range(n):
                self.side.append(L[i, i] > 0)
                for j in range(i + 1):
                    self.side.append(sum(L[i, k] * L[j, k] for k in range(n)) == A[i, j])
            self.chols.append((A, L))
            return L
        if A.ndim != 2 or n > 3:
            raise Unsupported("cholesky only 2-D n<=3")
        L = np.empty((n, n), dtype=object)
        for i in range(n):
            for j in range(n):
                L[i, j] = self.fconst(0)
        for j in range(n):
            s = A[j, j]
            for k in range(j):
                s = self.sub(s, self.mul(L[j, k], L[j, k]))
            self.assumed.append(s > 0)
            L[j, j] = self.sqrt(s)
            for i in range(j + 1, n):
                s = A[i, j]
                for k in range(j):
                    s = self.sub(s, self.mul(L[i, k], L[j, k]))
                L[i, j] = self.div(s, L[j, j])
        return L

    def p_triangular_solve(self, e, a):
        A, B = self.lift(a[0]), self.lift(a[1])
        p = e.params
        left, lower, trans = p["left_side"], p["lower"], p["transpose_a"]
        unit = p["unit_diagonal"]
        if p.get("conjugate_a"):
            pass
        if A.ndim > 2 and A.ndim == B.ndim and A.shape[:-2] == B.shape[:-2]:
            out = np.empty(B.shape, dtype=object)
            for idx in np.ndindex(*A.shape[:-2]):
                out[idx] = self.p_triangular_solve(e, [A[idx], B[idx]])
            return out
        if A.ndim != 2 or B.ndim != 2:
            raise Unsupported("triangular_solve batched")
        tr = str(trans).endswith("TRANSPOSE") and not str(trans).endswith("NO_TRANSPOSE")
        if tr:
            A = A.T
            lower = not lower
        if not left:
            # X A = B  <=>  A^T X^T = B^T
            A = A.T
            lower = not lower
            B = B.T
        n = A.shape[0]
        X = np.empty(B.shape, dtype=object)
        order = range(n) if lower else range(n - 1, -1, -1)
        for c in range(B.shape[1]):
            for i in order:
                s = B[i, c]
                ks = range(i) if lower else range(i + 1, n)
                for k in ks:
                    s = self.sub(s, self.mul(A[i, k], X[k, c]))
                X[i, c] = s if unit else self.div(s, A[i, i])
        return X if left else X.T

    # control flow
    def p_pjit(self, e, a):
        nm = e.params.get("name", "")
        if nm in ("_uniform",) and self.mode == "real":
            return self.stub_uniform(e, a)
        if nm in ("_normal", "_normal_real"):
            return self.stub_normal(e, a)
        if nm in ("_gamma",):
            return self.stub_gamma(e, a)
        if nm in ("_shuffle",):
            return self.stub_shuffle(e, a)
        return self.eval_closed(e.params["jaxpr"], *a)

    def p_closed_call(self, e, a):
        return self.eval_closed(e.params["call_jaxpr"], *a)

    def p_custom_jvp_call(self, e, a):
        return self.eval_closed(e.params["call_jaxpr"], *a)

    def p_custom_vjp_call(self, e, a):
        return self.eval_closed(e.params["call_jaxpr"], *a)

    def p_custom_vjp_call_jaxpr(self, e, a):
        return self.eval_closed(e.params["fun_jaxpr"], *a)

    def p_cond(self, e, a):
        idx, *ops = a
        branches = e.params["branches"]
        if not is_sym(idx):
            return self.eval_closed(branches[int(np.asarray(idx))], *ops)
        i = idx.reshape(-1)[0]
        isimp = z3.simplify(i)
        if z3.is_true(isimp) or z3.is_false(isimp):
            return self.eval_closed(branches[1 if z3.is_true(isimp) else 0], *ops)
        if z3.is_int_value(isimp):
            return self.eval_closed(branches[isimp.as_long()], *ops)
        outs = [self.eval_closed(b, *ops) for b in branches]
        res = []
        for k in range(len(outs[0])):
            if all(not is_sym(o[k]) for o in outs) and all(np.array_equal(np.asarray(outs[0][k]), np.asarray(o[k])) for o in outs[1:]):
                res.append(np.asarray(outs[0][k]))      # the same concrete value on every branch stays concrete
                continue

            def sel(*cases):
                if all(_same(c, cases[0]) or (z3.is_expr(c) and z3.is_expr(cases[0]) and c.eq(cases[0])) for c in cases[1:]):
                    return cases[0]
                expr = cases[-1]
                for j in range(len(cases) - 2, -1, -1):
                    if z3.is_bool(i):
                        cond = i if j == 1 else z3.Not(i)
                    elif z3.is_app_of(i, z3.Z3_OP_ITE) and z3.is_int_value(i.arg(1)) and z3.is_int_value(i.arg(2)) \
                            and i.arg(1).as_long() == 1 and i.arg(2).as_long() == 0 and j in (0, 1):
                        cond = i.arg(0) if j == 1 else z3.Not(i.arg(0))   # index came from a bool: reuse the same predicate term
                    else:
                        cond = i == j
                    expr = z3.If(cond, cases[j], expr)
                return expr
            res.append(self.ew(sel, *[o[k] for o in outs]))
        return res

    def p_scan(self, e, a):
        p = e.params
        nc, ncar, length = p["num_consts"], p["num_carry"], p["length"]
        consts, carry, xs = a[:nc], list(a[nc:nc + ncar]), a[nc + ncar:]
        ys = None
        rng = range(length - 1, -1, -1) if p["reverse"] else range(length)
        collected = []
        for t in rng:
            xt = [x[t] for x in xs]
            out = self.eval_closed(p["jaxpr"], *consts, *carry, *xt)
            carry = list(out[:ncar])
            collected.append(out[ncar:])
        if p["reverse"]:
            collected = collected[::-1]
        nys = len(collected[0]) if collected else 0
        ys = []
        for k in range(nys):
            ys.append(np.stack([self.lift(c[k]) for c in collected], axis=0))
        return carry + ys

    def p_while(self, e, a):
        p = e.params
        cn, bn = p["cond_nconsts"], p["body_nconsts"]
        cc, bc, carry = a[:cn], a[cn:cn + bn], list(a[cn + bn:])
        for it in range(10000):
            c = self.eval_closed(p["cond_jaxpr"], *cc, *carry)[0]
            if is_sym(c):
                raise Unsupported("while with symbolic condition")
            if not bool(np.asarray(c)):
                return carry
            carry = self.eval_closed(p["body_jaxpr"], *bc, *carry)
        raise Unsupported("while did not terminate")

    # PRNG: keys are opaque terms in a free algebra (elements of object arrays)
    def p_random_wrap(self, e, a):
        x = self.lift(a[0]) if not is_sym(a[0]) else a[0]
        shape = x.shape[:-1]
        out = np.empty(shape, dtype=object)
        for i in np.ndindex(*shape):
            w0, w1 = x[i + (0,)], x[i + (1,)]
            if isinstance(w0, KeyWord) and isinstance(w1, KeyWord) and w0.key is w1.key:
                out[i] = w0.key
            else:
                out[i] = KeyTerm(("raw", str(w0), str(w1)))
        return out

    def p_random_seed(self, e, a):
        x = self.lift(a[0])
        out = np.empty(x.shape, dtype=object)
        for i in np.ndindex(*x.shape):
            out[i] = KeyTerm(("seed", str(x[i])))
        return out

    def p_random_unwrap(self, e, a):
        k = a[0]
        out = np.empty(k.shape + (2,), dtype=object)
        for i in np.ndindex(*k.shape):
            out[i + (0,)] = KeyWord(k[i], 0)
            out[i + (1,)] = KeyWord(k[i], 1)
        return out

    def p_random_split(self, e, a):
        k = a[0]
        shape = tuple(e.params["shape"])
        out = np.empty(k.shape + shape, dtype=object)
        for i in np.ndindex(*k.shape):
            for j in np.ndindex(*shape):
                out[i + j] = KeyTerm(("split", k[i].term, shape, j))
        return out

    def p_random_fold_in(self, e, a):
        k, d = a
        return self.ew(lambda kk, dd: KeyTerm(("fold_in", kk.term, str(dd))), k, self.lift(d))

    def p_random_bits(self, e, a):
        # stub: an arbitrary word per (key term, position); the same key gives the same bits
        k = a[0]
        shape = tuple(e.params["shape"])
        out = np.empty(k.shape + shape, dtype=object)
        memo = self.memo if self.memo is not None else self.__dict__.setdefault("_bits_memo", {})
        for i in np.ndindex(*k.shape):
            for j in np.ndindex(*shape):
                mk = ("bits", repr(k[i]), shape, j, e.params["bit_width"])
                if mk not in memo:
                    memo[mk] = self.fresh("bits", z3.BitVecSort(e.params["bit_width"]))
                out[i + j] = memo[mk]
        self.stubs.append(("random_bits", [repr(kk) for kk in k.reshape(-1)]))
        self.draws.append(dict(kind="bits", keys=[kk for kk in k.reshape(-1)], out=out, shape=tuple(out.shape), extra=[]))
        return out

    def p_shift_right_logical(self, e, a):
        return self.ew(lambda x, y: z3.LShR(x, self._bv(y, x)), *a)

    def _bv(self, y, like):
        if z3.is_bv(y):
            return y
        return z3.BitVecVal(int(str(y)), like.size())

    def p_bitcast_convert_type(self, e, a):
        if self.mode != "fp32":
            raise Unsupported("bitcast in real mode")
        return self.ew(lambda x: z3.fpBVToFP(x, self.F), *a)

    def p_or(self, e, a):
        def f(x, y):
            if z3.is_bool(x):
                return z3.Or(x, y)
            if z3.is_bv(x) or z3.is_bv(y):
                xx = x if z3.is_bv(x) else z3.BitVecVal(int(str(x)), y.size())
                yy = y if z3.is_bv(y) else z3.BitVecVal(int(str(y)), x.size())
                return xx | yy
            raise Unsupported("or on ints")
        return self.ew(f, *a)

    # ---- named samplers: fresh variables constrained by their documented contract only,
    #      memoised by (kind, key term, shape) when a memo dict is shared between evaluations
    def _draw(self, kind, e, key, shape, mk, extra=()):
        kts = tuple(repr(kk) for kk in np.asarray(key, dtype=object).reshape(-1))
        mkey = (kind, kts, tuple(shape), tuple(str(x) for x in extra))
        if self.memo is not None and mkey in self.memo:
            out = self.memo[mkey]
        else:
            out = np.empty(shape, dtype=object)
            for i in np.ndindex(*shape):
                out[i] = mk()
            if self.memo is not None:
                self.memo[mkey] = out
        self.draws.append(dict(kind=kind, keys=[kk for kk in np.asarray(key, dtype=object).reshape(-1)], out=out, shape=tuple(shape), extra=list(extra)))
        self.stubs.append((kind, list(kts)))
        return out

    def stub_uniform(self, e, a):
        key, lo, hi = a
        aval = e.outvars[0].aval

        def mk():
            u = self.fresh("u01")
            self.side.append(z3.And(u >= 0, u < 1))
            return u
        out = self._draw("uniform", e, key, aval.shape, mk)
        lo, hi = self.lift(lo), self.lift(hi)
        return [self.ew(lambda u, l, h: l + u * (h - l), out, lo, hi)]

    def stub_normal(self, e, a):
        aval = e.outvars[0].aval
        out = self._draw("normal", e, a[0], aval.shape, lambda: self.fresh("z"))
        self.normals.append(out)
        return [out]

    def stub_gamma(self, e, a):
        # jax.random.gamma(key, a): positive draw, distributed Gamma(a, 1) (contract)
        aval = e.outvars[0].aval
        conc = self.lift(a[1])

        def mk():
            g = self.fresh("g")
            self.side.append(g > 0)
            return g
        out = self._draw("gamma", e, a[0], aval.shape, mk, extra=[c for c in conc.reshape(-1)])
        self.stub_out["_gamma"] = [out]
        self.stub_in["_gamma"] = a
        return [out]

    def stub_shuffle(self, e, a):
        # jax.random.permutation / _shuffle: an arbitrary permutation of the operand (contract);
        # cells are Poison because no obligation may depend on *which* permutation
        aval = e.outvars[0].aval
        out = np.empty(aval.shape, dtype=object)
        for i in np.ndindex(*aval.shape):
            out[i] = Poison("permutation draw")
        self.draws.append(dict(kind="shuffle", keys=[kk for kk in np.asarray(a[0], dtype=object).reshape(-1)], out=out, shape=tuple(aval.shape), extra=[]))
        self.stubs.append(("shuffle", [repr(kk) for kk in np.asarray(a[0], dtype=object).reshape(-1)]))
        return [out]

    def stub_generic(self, e, a, nm):
        res = []
        for ov in e.outvars:
            out = np.empty(ov.aval.shape, dtype=object)
            for i in np.ndindex(*ov.aval.shape):
                out[i] = self.fresh(nm)
            res.append(out)
        self.stubs.append((nm, None))
        self.stub_out[nm] = res
        self.stub_in[nm] = a
        return res

    # ---- verif_stub: a callee re-bound by the harness; arguments recorded, outputs fresh
    def p_verif_stub(self, e, a):
        name = e.params["name"]
        k = sum(1 for c in self.calls if c[0] == name)
        outs = []
        for j, ov in enumerate(e.outvars):
            sort = z3.IntSort() if np.issubdtype(ov.aval.dtype, np.integer) else (z3.BoolSort() if ov.aval.dtype == bool else self.F)
            outs.append(sym_array(f"{name}{self.tag}#{k}.{j}", ov.aval.shape, sort))
        self.calls.append((name, [self.lift(x) if not is_sym(x) else x for x in a], outs))
        return outs

    def _scaled_concrete(self, A):
        if self.mode != "real":
            return None
        try:
            return _scaled_concrete_impl(A)
        except Exception:
            return None

    def p_eigh(self, e, a):
        # contract stub: A V = V diag(w), V^T V = I, w ascending
        A = self.lift(a[0])
        if A.ndim != 2:
            raise Unsupported("eigh batched")
        nn = A.shape[-1]
        for (A0, V0, w0) in self.eigs:   # same operand term => same decomposition
            if A0.shape == A.shape and all(_same(x, y) for x, y in zip(A0.reshape(-1), A.reshape(-1))):
                return [V0, w0]
        sc = self._scaled_concrete(A)
        if sc is not None:
            # A = K * s with K concrete symmetric and s one symbolic scalar: eigh(A) = (V_K, w_K * s) for s > 0
            Kc, s_term = sc
            wK, VK = np.linalg.eigh(np.asarray(Kc, dtype=np.float64))
            wK = np.where(np.abs(wK) < 1e-6, 0.0, wK)          # exact zeros of the rank-deficient table
            w = np.empty((nn,), dtype=object)
            for i in range(nn):
                w[i] = self.fconst(np.float32(wK[i])) * s_term
            V = self.lift(np.asarray(VK, dtype=np.float32))
            self.assumed.append(s_term > 0)
            self.eigs.append((A, V, w))
            self.stubs.append(("eigh(concrete K * scalar)", None))
            return [V, w]
        t = len(self.eigs)
        V = sym_array(f"eigV{self.tag}{t}", (nn, nn))
        w = sym_array(f"eigw{self.tag}{t}", (nn,))
        for i in range(nn):
            for j in range(nn):
                self.side.append(sum(A[i, k] * V[k, j] for k in range(nn)) == V[i, j] * w[j])
                self.side.append(sum(V[k, i] * V[k, j] for k in range(nn)) == (1 if i == j else 0))
        for i in range(nn - 1):
            self.side.append(w[i] <= w[i + 1])
        self.eigs.append((A, V, w))
        return [V, w]


def _scaled_concrete_impl(A):
    """if every cell of the symbolic matrix A is k_ij * s for numerals k_ij and one common term s,
    return (K, s); else None"""
    nn = A.shape[-1]
    base = None
    for i in range(nn):
        for j in range(nn):
            c = z3.simplify(A[i, j])
            if z3.is_rational_value(c):
                continue
            base = (i, j)
            break
        if base:
            break
    if base is None:
        return None
    # find the scalar: s := A[base] / A[base]|_{vars=1}
    vars_ = set()
    stack = [z3.simplify(A[base])]
    while stack:
        x = stack.pop()
        if z3.is_const(x) and x.decl().kind() == z3.Z3_OP_UNINTERPRETED:
            vars_.add(x)
        stack.extend(x.children())
    if len(vars_) != 1:
        return None
    v = next(iter(vars_))
    one = z3.RealVal(1)
    K = np.zeros((nn, nn))
    for i in range(nn):
        for j in range(nn):
            kij = z3.simplify(z3.substitute(A[i, j], (v, one)))
            if not z3.is_rational_value(kij):
                return None
            K[i, j] = float(kij.numerator_as_long()) / float(kij.denominator_as_long())
    kb = K[base]
    if kb == 0:
        return None
    s_term = A[base] / z3.RealVal(repr(float(kb))) if False else z3.simplify(A[base] * z3.Q(1, 1) / _rat(kb))
    # verify A == K * s cell by cell (syntactically after simplification, else by the solver)
    for i in range(nn):
        for j in range(nn):
            d = z3.simplify(A[i, j] - _rat(K[i, j]) * s_term)
            if not (z3.is_rational_value(d) and d.numerator_as_long() == 0):
                sol = z3.Solver()
                sol.set("timeout", 5000)
                sol.add(v > 0, A[i, j] != _rat(K[i, j]) * s_term)
                if str(sol.check()) != "unsat":
                    return None
    if not np.allclose(K, K.T):
        return None
    return K, s_term


def _rat(x):
    from fractions import Fraction
    fr = Fraction(float(x))
    return z3.RealVal(f"{fr.numerator}/{fr.denominator}")


def _same(x, y):
    if z3.is_expr(x) and z3.is_expr(y):
        return x.eq(y)
    return x is y


class Poison:
    """value the encoding knows nothing about; obligations that touch it are inconclusive"""

    def __init__(self, why):
        self.why = why

    def __repr__(self):
        return f"Poison({self.why})"


class NonFinite:
    """nan / +-inf constant in real mode: may be moved and selected, never computed with"""

    def __init__(self, x):
        self.x = x

    def __repr__(self):
        return f"NonFinite({self.x})"


class KeyTerm:
    """opaque PRNG key represented by its derivation term (free algebra)"""

    def __init__(self, term):
        self.term = term

    def __repr__(self):
        return f"Key{self.term}"


class KeyWord:
    def __init__(self, key, i):
        self.key, self.i = key, i

    def __repr__(self):
        return f"word{self.i}({self.key})"


def root_key(name):
    k = KeyTerm(("root", name))
    out = np.empty((2,), dtype=object)
    out[0], out[1] = KeyWord(k, 0), KeyWord(k, 1)
    return out


def sym_array(name, shape, sort=None):
    sort = z3.RealSort() if sort is None else sort
    out = np.empty(shape, dtype=object)
    for i in np.ndindex(*shape):
        out[i] = z3.Const(name + "".join(f"_{k}" for k in i), sort)
    return out


def trace(fn, *example_args, **kw):
    return jax.make_jaxpr(fn, **kw)(*example_args)
