"""Engine C: a minimal dynamic symbolic executor for plain-Python / numpy-style bookkeeping code.

The code under test runs unmodified on proxy values (`SInt`, `SBool`, arrays `FA` of them).  Every
Python-level branch on a symbolic boolean (`if ec == 0`, a dict probing its keys with `==`, a sort
comparing two codes) asks z3 which outcomes are feasible under the path condition collected so far;
if both are, the other outcome is queued and explored in a later re-execution.  All feasible paths are
explored (depth-first, by re-execution with a decision prefix); at the end of each path the harness
states the postcondition as a z3 formula over the symbolic inputs and z3 decides it under the path
condition.  Integers are mathematical (Python `int`); nothing is concretised: an operation that would
need a concrete value (`__index__`) raises `Concretized` and the run is reported inconclusive.

`FA` implements numpy's `__array_function__` protocol, so `np.any / np.where / np.unique / np.sum`
in the code under test dispatch to symbolic implementations without re-binding the module's `np`.
"""
import time

import numpy as np
import z3


class Unsupported(Exception):
    pass


class Concretized(Unsupported):
    pass


class Infeasible(Exception):
    pass


_CTX = [None]


def ctx():
    if _CTX[0] is None:
        raise Unsupported("symbolic branch outside an exploration")
    return _CTX[0]


class Stats:
    def __init__(self):
        self.queries = 0
        self.solver_s = 0.0
        self.paths = 0
        self.max_depth = 0


class Path:
    def __init__(self, prefix, stats):
        self.prefix = list(prefix)
        self.decisions = []
        self.pc = []
        self.solver = z3.Solver()
        self.new = []
        self.stats = stats

    def assume(self, e):
        self.pc.append(e)
        self.solver.add(e)

    def _sat(self, e):
        t0 = time.time()
        r = self.solver.check(e)
        self.stats.queries += 1
        self.stats.solver_s += time.time() - t0
        if r == z3.unknown:
            raise Unsupported("z3 answered unknown on a path-feasibility query")
        return r == z3.sat

    def branch(self, e):
        e = z3.simplify(e)
        if z3.is_true(e):
            return True
        if z3.is_false(e):
            return False
        i = len(self.decisions)
        if i < len(self.prefix):
            d = self.prefix[i]
        else:
            can_t, can_f = self._sat(e), self._sat(z3.Not(e))
            if can_t and can_f:
                self.new.append(self.decisions + [False])
                d = True
            elif can_t:
                d = True
            elif can_f:
                d = False
            else:
                raise Infeasible()
        self.decisions.append(d)
        c = e if d else z3.Not(e)
        self.pc.append(c)
        self.solver.add(c)
        return d

    def valid(self, goal):
        """(verdict, model): is `goal` implied by the path condition?"""
        t0 = time.time()
        r = self.solver.check(z3.Not(goal))
        self.stats.queries += 1
        self.stats.solver_s += time.time() - t0
        if r == z3.unsat:
            return "unsat", None
        if r == z3.sat:
            return "sat", self.solver.model()
        return "unknown", None


def explore(run, prefixes=((),), max_paths=200000, deadline=None, stats=None):
    """run(path) -> None | counterexample ; explores every feasible path below each prefix.
    returns (stats, counterexamples, complete)"""
    stats = stats or Stats()
    stack = [list(p) for p in prefixes]
    cex = []
    complete = True
    while stack:
        if stats.paths >= max_paths or (deadline is not None and time.time() > deadline):
            complete = False
            break
        p = Path(stack.pop(), stats)
        _CTX[0] = p
        try:
            out = run(p)
        except Infeasible:
            out = None
        finally:
            _CTX[0] = None
        stats.paths += 1
        stats.max_depth = max(stats.max_depth, len(p.decisions))
        stack.extend(p.new)
        if out is not None:
            cex.append(out)
            if len(cex) >= 3:
                complete = False
                break
    return stats, cex, complete


def frontier(run, width):
    """breadth-first expansion until at least `width` open prefixes exist (for splitting the exploration over processes);
    returns (finished-path outputs, open prefixes, stats)"""
    stats = Stats()
    open_, done_cex = [[]], []
    while open_ and len(open_) < width:
        pre = open_.pop(0)
        p = Path(pre, stats)
        _CTX[0] = p
        try:
            # run only to learn the first new branch points: a full run is the simplest way to do so
            out = run(p)
        except Infeasible:
            out = None
        finally:
            _CTX[0] = None
        stats.paths += 1
        if out is not None:
            done_cex.append(out)
        open_.extend(p.new)
    return done_cex, open_, stats


# ------------------------------------------------------------------------------------------------ proxy scalars
def _ze(x):
    if isinstance(x, (SInt, SBool)):
        return x.e
    if isinstance(x, (bool, np.bool_)):
        return z3.BoolVal(bool(x))
    if isinstance(x, (int, np.integer)):
        return z3.IntVal(int(x))
    raise TypeError(type(x))


def _as_int(e):
    return z3.If(e, z3.IntVal(1), z3.IntVal(0)) if z3.is_bool(e) else e


def _is_num(x):
    return isinstance(x, (int, np.integer, bool, np.bool_, SInt, SBool))


class SBool:
    __slots__ = ("e",)

    def __init__(self, e):
        self.e = e

    def __bool__(self):
        return ctx().branch(self.e)

    def __invert__(self):
        return SBool(z3.Not(self.e))

    def __and__(self, o):
        return SBool(z3.And(self.e, _ze(o))) if isinstance(o, (SBool, bool, np.bool_)) else NotImplemented

    __rand__ = __and__

    def __or__(self, o):
        return SBool(z3.Or(self.e, _ze(o))) if isinstance(o, (SBool, bool, np.bool_)) else NotImplemented

    __ror__ = __or__

    def __eq__(self, o):
        if isinstance(o, (SBool, bool, np.bool_)):
            return SBool(self.e == _ze(o))
        if _is_num(o):
            return SBool(_as_int(self.e) == _as_int(_ze(o)))
        return NotImplemented

    def __ne__(self, o):
        r = self.__eq__(o)
        return r if r is NotImplemented else SBool(z3.Not(r.e))

    __hash__ = None

    def __add__(self, o):
        return SInt(_as_int(self.e)) + o

    __radd__ = __add__

    def __index__(self):
        return int(bool(self))

    __int__ = __index__

    def __repr__(self):
        return f"SBool({self.e})"


def mk_bool(e):
    e = z3.simplify(e)
    if z3.is_true(e):
        return True
    if z3.is_false(e):
        return False
    return SBool(e)


class SInt:
    __slots__ = ("e",)

    def __init__(self, e):
        self.e = e

    def _bin(self, o, f):
        if not _is_num(o):
            return NotImplemented
        return SInt(f(self.e, _as_int(_ze(o))))

    def __add__(self, o): return self._bin(o, lambda a, b: a + b)
    __radd__ = __add__
    def __sub__(self, o): return self._bin(o, lambda a, b: a - b)
    def __rsub__(self, o): return self._bin(o, lambda a, b: b - a)
    def __mul__(self, o): return self._bin(o, lambda a, b: a * b)
    __rmul__ = __mul__
    def __neg__(self): return SInt(-self.e)

    def _divmod(self, o, which, reflected=False):
        """floor division / modulo for a positive divisor (z3's integer div/mod agree with Python's there); a symbolic divisor is
        branched on its sign and only the positive case is supported"""
        if not _is_num(o):
            return NotImplemented
        a, b = (_as_int(_ze(o)), self.e) if reflected else (self.e, _as_int(_ze(o)))
        divisor = self if reflected else o
        if isinstance(divisor, (SInt, SBool)):
            if not bool(divisor > 0):
                raise Unsupported("division by a non-positive symbolic integer")
        elif int(divisor) <= 0:
            raise Unsupported("division by a non-positive integer")
        return SInt(a / b if which == "div" else a % b)

    def __floordiv__(self, o): return self._divmod(o, "div")
    def __rfloordiv__(self, o): return self._divmod(o, "div", True)
    def __mod__(self, o): return self._divmod(o, "mod")
    def __rmod__(self, o): return self._divmod(o, "mod", True)

    def _cmp(self, o, f):
        if not _is_num(o):
            return NotImplemented
        return mk_bool(f(self.e, _as_int(_ze(o))))

    def __eq__(self, o): return self._cmp(o, lambda a, b: a == b)
    def __ne__(self, o): return self._cmp(o, lambda a, b: a != b)
    def __lt__(self, o): return self._cmp(o, lambda a, b: a < b)
    def __le__(self, o): return self._cmp(o, lambda a, b: a <= b)
    def __gt__(self, o): return self._cmp(o, lambda a, b: a > b)
    def __ge__(self, o): return self._cmp(o, lambda a, b: a >= b)

    def __hash__(self):
        # one bucket for every symbolic key: dicts and sets then decide membership by `==`, which forks
        return 0

    def __bool__(self):
        return ctx().branch(self.e != 0)

    def __index__(self):
        raise Concretized("a symbolic integer was used where Python needs a concrete one (index / range / int())")

    __int__ = __index__

    def __repr__(self):
        return f"SInt({self.e})"


def seq_eq(a, b):
    if _is_num(a) and _is_num(b) and (isinstance(a, (SInt, SBool)) or isinstance(b, (SInt, SBool))):
        r = (a == b)
        return r
    return a == b


# ------------------------------------------------------------------------------------------------ arrays
HANDLED = {}


def implements(f):
    def deco(g):
        HANDLED[f] = g
        return g
    return deco


class FA:
    """row-major array (1-D or 2-D) of Python numbers / SInt / SBool; the subset of ndarray behaviour the bookkeeping code uses"""
    __array_ufunc__ = None
    __array_priority__ = 1000

    def __init__(self, data, shape):
        self.data = list(data)
        self.shape = tuple(int(s) for s in shape)
        n = 1
        for s in self.shape:
            n *= s
        assert len(self.shape) in (1, 2) and n == len(self.data), (self.shape, len(self.data))

    @classmethod
    def rows(cls, rows):
        rows = [list(r) for r in rows]
        return cls([x for r in rows for x in r], (len(rows), len(rows[0]) if rows else 0))

    @property
    def ndim(self):
        return len(self.shape)

    @property
    def size(self):
        return len(self.data)

    def row(self, i):
        n = self.shape[1]
        return self.data[i * n:(i + 1) * n]

    def col(self, j):
        return [self.data[i * self.shape[1] + j] for i in range(self.shape[0])]

    def tolist(self):
        return list(self.data) if self.ndim == 1 else [self.row(i) for i in range(self.shape[0])]

    def _ew(self, o, f):
        if isinstance(o, FA):
            if o.shape != self.shape:
                raise Unsupported(f"broadcasting {self.shape} with {o.shape}")
            return FA([f(a, b) for a, b in zip(self.data, o.data)], self.shape)
        if _is_num(o):
            return FA([f(a, o) for a in self.data], self.shape)
        return NotImplemented

    def __eq__(self, o): return self._ew(o, lambda a, b: a == b)
    def __ne__(self, o): return self._ew(o, lambda a, b: a != b)
    def __lt__(self, o): return self._ew(o, lambda a, b: a < b)
    def __le__(self, o): return self._ew(o, lambda a, b: a <= b)
    def __gt__(self, o): return self._ew(o, lambda a, b: a > b)
    def __ge__(self, o): return self._ew(o, lambda a, b: a >= b)
    def __add__(self, o): return self._ew(o, lambda a, b: a + b)
    def __radd__(self, o): return self._ew(o, lambda a, b: b + a)
    def __sub__(self, o): return self._ew(o, lambda a, b: a - b)
    def __rsub__(self, o): return self._ew(o, lambda a, b: b - a)
    def __mul__(self, o): return self._ew(o, lambda a, b: a * b)
    def __rmul__(self, o): return self._ew(o, lambda a, b: b * a)
    def __and__(self, o): return self._ew(o, lambda a, b: a & b)
    def __or__(self, o): return self._ew(o, lambda a, b: a | b)
    def __invert__(self): return FA([(not a) if isinstance(a, (bool, np.bool_)) else ~a for a in self.data], self.shape)
    __hash__ = None

    def sum(self, axis=None, **kw): return _sum(self, axis=axis)
    def any(self, axis=None, **kw): return _any(self, axis=axis)
    def all(self, axis=None, **kw): return _all(self, axis=axis)
    def astype(self, dtype, **kw):
        """casts keep the mathematical value except to the narrow integer types, which wrap (two's complement); symbolic integers are taken to
        lie within int32/int64 (stated bound), so those casts and casts to floats are the identity"""
        try:
            dt = np.dtype(dtype)
        except TypeError:
            return FA(self.data, self.shape)
        if dt.kind in "ui" and dt.itemsize <= 2 and any(isinstance(d, (SInt, int, np.integer)) and not isinstance(d, (bool, np.bool_)) for d in self.data):
            m = 1 << (8 * dt.itemsize)
            if dt.kind == "u":
                return FA([d % m if not isinstance(d, (bool, np.bool_, SBool)) else d for d in self.data], self.shape)
            return FA([((d + m // 2) % m) - m // 2 if not isinstance(d, (bool, np.bool_, SBool)) else d for d in self.data], self.shape)
        return FA(self.data, self.shape)
    def copy(self): return FA(self.data, self.shape)
    def flatten(self): return FA(self.data, (len(self.data),))
    ravel = flatten

    @property
    def T(self):
        if self.ndim == 1:
            return self
        return FA.rows([self.col(j) for j in range(self.shape[1])])

    def __len__(self):
        return self.shape[0]

    def __iter__(self):
        if self.ndim == 1:
            return iter(self.data)
        return iter(FA(self.row(i), (self.shape[1],)) for i in range(self.shape[0]))

    def _select(self, sel):
        """column / element positions chosen by a boolean mask (forks per symbolic entry) or by integer indices"""
        if isinstance(sel, FA):
            if sel.ndim != 1:
                raise Unsupported("2-D index array")
            vals = sel.data
        else:
            vals = list(np.asarray(sel).reshape(-1).tolist())
        if vals and all(isinstance(v, (bool, np.bool_, SBool)) for v in vals):
            return [k for k, v in enumerate(vals) if bool(v)]
        out = []
        for v in vals:
            if isinstance(v, (SInt, SBool)):
                raise Concretized("symbolic integer used as an index")
            out.append(int(v))
        return out

    def __getitem__(self, idx):
        if isinstance(idx, tuple):
            idx = tuple(i for i in idx if i is not Ellipsis)
            if len(idx) == 1:
                idx = idx[0]
        if self.ndim == 1:
            if isinstance(idx, (int, np.integer)):
                return self.data[int(idx)]
            if isinstance(idx, slice):
                d = self.data[idx]
                return FA(d, (len(d),))
            if isinstance(idx, (FA, list, np.ndarray)):
                pos = self._select(idx)
                return FA([self.data[p] for p in pos], (len(pos),))
            raise Unsupported(f"index {idx!r} on a 1-D array")
        if isinstance(idx, (int, np.integer)):
            return FA(self.row(int(idx)), (self.shape[1],))
        if isinstance(idx, tuple) and len(idx) == 2:
            r, c = idx
            if isinstance(r, slice) and r == slice(None):
                if isinstance(c, (int, np.integer)):
                    return FA(self.col(int(c)), (self.shape[0],))
                if isinstance(c, slice):
                    cols = list(range(self.shape[1]))[c]
                else:
                    cols = self._select(c)
                    if isinstance(c, FA) and len(c.data) != self.shape[1] and c.data and isinstance(c.data[0], (bool, np.bool_, SBool)):
                        raise IndexError("boolean index did not match indexed array")
                return FA([self.data[i * self.shape[1] + j] for i in range(self.shape[0]) for j in cols], (self.shape[0], len(cols)))
            if isinstance(r, (int, np.integer)) and isinstance(c, (int, np.integer)):
                return self.data[int(r) * self.shape[1] + int(c)]
        raise Unsupported(f"index {idx!r} on a 2-D array")

    def __array_function__(self, func, types, args, kwargs):
        h = HANDLED.get(func)
        if h is None:
            raise Unsupported(f"numpy.{getattr(func, '__name__', func)} on a symbolic array")
        return h(*args, **kwargs)

    def __array__(self, *a, **k):
        raise Unsupported("implicit conversion of a symbolic array to a numpy array")

    def __repr__(self):
        return f"FA({self.tolist()!r})"


def _or(vals):
    if any(isinstance(v, SBool) for v in vals):
        if any(v is True or (isinstance(v, np.bool_) and bool(v)) for v in vals):
            return True
        return mk_bool(z3.Or(*[v.e for v in vals if isinstance(v, SBool)]))
    return any(bool(v) for v in vals)


def _count(vals):
    sym = [v for v in vals if isinstance(v, (SBool, SInt))]
    base = sum(int(v) for v in vals if not isinstance(v, (SBool, SInt)))
    if not sym:
        return base
    return SInt(z3.simplify(z3.Sum(*[_as_int(v.e) for v in sym]) + base))


@implements(np.any)
def _any(a, axis=None, **kw):
    if axis is None:
        return _or(a.data)
    if a.ndim != 2:
        raise Unsupported("np.any with an axis on a 1-D array")
    if axis in (0, -2):
        return FA([_or(a.col(j)) for j in range(a.shape[1])], (a.shape[1],))
    if axis in (1, -1):
        return FA([_or(a.row(i)) for i in range(a.shape[0])], (a.shape[0],))
    raise Unsupported(f"axis {axis}")


@implements(np.sum)
def _sum(a, axis=None, **kw):
    if axis is None:
        return _count(a.data)
    if a.ndim != 2:
        raise Unsupported("np.sum with an axis on a 1-D array")
    if axis in (0, -2):
        return FA([_count(a.col(j)) for j in range(a.shape[1])], (a.shape[1],))
    if axis in (1, -1):
        return FA([_count(a.row(i)) for i in range(a.shape[0])], (a.shape[0],))
    raise Unsupported(f"axis {axis}")


def _and(vals):
    if any(isinstance(v, SBool) for v in vals):
        if any((v is False) or (isinstance(v, np.bool_) and not bool(v)) for v in vals):
            return False
        return mk_bool(z3.And(*[v.e for v in vals if isinstance(v, SBool)]))
    return all(bool(v) for v in vals)


@implements(np.all)
def _all(a, axis=None, **kw):
    if axis is None:
        return _and(a.data)
    if a.ndim != 2:
        raise Unsupported("np.all with an axis on a 1-D array")
    if axis in (0, -2):
        return FA([_and(a.col(j)) for j in range(a.shape[1])], (a.shape[1],))
    if axis in (1, -1):
        return FA([_and(a.row(i)) for i in range(a.shape[0])], (a.shape[0],))
    raise Unsupported(f"axis {axis}")


@implements(np.count_nonzero)
def _count_nonzero(a, axis=None, **kw):
    return _sum(a != 0 if not all(isinstance(v, (bool, np.bool_, SBool)) for v in a.data) else a, axis=axis)


@implements(np.nonzero)
def _nonzero(a):
    return _where(a if all(isinstance(v, (bool, np.bool_, SBool)) for v in a.data) else (a != 0))


@implements(np.flatnonzero)
def _flatnonzero(a):
    return _nonzero(a.flatten())[0]


@implements(np.transpose)
def _transpose(a, axes=None):
    return a.T


@implements(np.ravel)
def _ravel(a, **kw):
    return a.flatten()


@implements(np.where)
def _where(cond, *rest):
    if rest:
        raise Unsupported("three-argument np.where")
    if cond.ndim != 1:
        raise Unsupported("np.where on a 2-D condition")
    pos = [k for k, v in enumerate(cond.data) if bool(v)]
    return (FA(pos, (len(pos),)),)


@implements(np.unique)
def _unique(a, return_counts=False, **kw):
    if kw:
        raise Unsupported(f"np.unique options {sorted(kw)}")
    out, counts = [], []
    for x in a.data:
        placed = False
        for k, y in enumerate(out):
            if x == y:
                counts[k] += 1
                placed = True
                break
            if x < y:
                out.insert(k, x)
                counts.insert(k, 1)
                placed = True
                break
        if not placed:
            out.append(x)
            counts.append(1)
    u = FA(out, (len(out),))
    return (u, FA(counts, (len(counts),))) if return_counts else u


@implements(np.shape)
def _shape(a):
    return a.shape


@implements(np.ndim)
def _ndim(a):
    return a.ndim


@implements(np.concatenate)
def concatenate(xs, axis=0, **kw):
    xs = list(xs)
    if not all(isinstance(x, FA) for x in xs):
        raise Unsupported("concatenating symbolic and ordinary arrays")
    if xs[0].ndim == 1:
        if axis not in (0, -1):
            raise Unsupported(f"axis {axis}")
        d = [v for x in xs for v in x.data]
        return FA(d, (len(d),))
    if axis in (1, -1):
        n = xs[0].shape[0]
        if any(x.shape[0] != n for x in xs):
            raise ValueError("all the input array dimensions except for the concatenation axis must match exactly")
        return FA.rows([[v for x in xs for v in x.row(i)] for i in range(n)])
    if axis in (0, -2):
        m = xs[0].shape[1]
        if any(x.shape[1] != m for x in xs):
            raise ValueError("all the input array dimensions except for the concatenation axis must match exactly")
        return FA.rows([x.row(i) for x in xs for i in range(x.shape[0])])
    raise Unsupported(f"axis {axis}")


class JnpShim:
    """stands in for a module's `jnp`: `concatenate` of symbolic arrays is done here, everything else is jax.numpy"""

    def __init__(self, real):
        self._real = real

    def concatenate(self, xs, axis=0, **kw):
        xs = list(xs)
        if any(isinstance(x, FA) for x in xs):
            return concatenate(xs, axis=axis)
        return self._real.concatenate(xs, axis=axis, **kw)

    def asarray(self, x, dtype=None, **kw):
        if isinstance(x, FA):
            return x if dtype is None else x.astype(dtype)
        return self._real.asarray(x, dtype=dtype, **kw)

    def array(self, x, dtype=None, **kw):
        if isinstance(x, FA):
            return x.copy() if dtype is None else x.astype(dtype)
        return self._real.array(x, dtype=dtype, **kw)

    def __getattr__(self, name):
        return getattr(self._real, name)
