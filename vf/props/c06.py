"""C06 Proposal corrections of RW, IWLS and MH kernels satisfy detailed balance
(Engine B, real mode, modular: unit lemmas on iwls_utils + glue obligations on the kernels)."""
import contextlib

import jax
import jax.numpy as jnp
import numpy as np
import z3

from .. import kernels as K
from .. import stubs
from ..harness import Check, Enc, Inconclusive, Obligation, all_eq, cells, eqs, symlike
from ..jx2smt import root_key, sym_array

TECH = ("jaxprs of iwls_utils.solve/mvn_log_prob/mvn_sample and of the RW/IWLS/MH kernels' _standard_transition (callees re-bound to verif_stub, "
        "cholesky as a contract stub) interpreted over z3 reals (MH correction path also over Float32); z3/nlsat decides each negated obligation")


def tril(name, n):
    L = np.empty((n, n), dtype=object)
    for i in range(n):
        for j in range(n):
            L[i, j] = z3.Real(f"{name}_{i}{j}") if j <= i else z3.RealVal(0)
    return L


def sc(v):
    return np.array(v, dtype=object).reshape(())


# ------------------------------------------------------------------ unit lemmas
def lemmas(chk, n):
    import liesel.goose.iwls_utils as iu
    obs = []
    C = tril(f"C{n}", n)
    pos = [C[i, i] > 0 for i in range(n)]
    r, x, m = sym_array(f"r{n}", (n,)), sym_array(f"x{n}", (n,)), sym_array(f"m{n}", (n,))
    exC = jnp.eye(n) + jnp.tril(jnp.full((n, n), 0.3), -1)
    dom = {C[i, i].decl().name(): (0.5, 2.0) for i in range(n)}
    e1 = chk.note_enc(Enc(f"solve[n={n}]", iu.solve, (exC, jnp.ones(n)), (C, r), domain=dom))

    def g1(V):
        v = V.out
        CCt = [[sum(C[i, k] * C[j, k] for k in range(n)) for j in range(n)] for i in range(n)]
        return pos, z3.And(*[sum(CCt[i][j] * v[j] for j in range(n)) == r[i] for i in range(n)])
    obs.append(Obligation(f"solve(C, r): C C^T v = r  [n={n}]", [e1], g1, signature=f"lemma:solve:{n}"))
    e2 = chk.note_enc(Enc(f"mvn_log_prob[n={n}]", iu.mvn_log_prob, (jnp.zeros(n), jnp.zeros(n), exC), (x, m, C), domain=dom))
    c0 = float(iu.mvn_log_prob(jnp.zeros(n), jnp.zeros(n), jnp.eye(n)))   # normalising constant read off the code at x=m, C=I

    def g2(V):
        std = [sum(C[k, i] * (x[k] - m[k]) for k in range(n)) for i in range(n)]
        ref = sum(V.log(C[i, i]) for i in range(n)) - sum(s_ * s_ for s_ in std) / 2 + V.c(np.float32(c0))
        d = cells(V.out)[0] - ref
        tol = z3.RealVal("1/100000")
        return pos, z3.And(d <= tol, d >= -tol)
    obs.append(Obligation(f"mvn_log_prob(x, m, C) = sum log C_ii - |C^T(x-m)|^2/2 - n/2 log 2pi  [n={n}]", [e2], g2, signature=f"lemma:mvn_log_prob:{n}"))
    key = jax.random.PRNGKey(3)
    e3 = chk.note_enc(Enc(f"mvn_sample[n={n}]", iu.mvn_sample, (key, jnp.zeros(n), exC), (root_key("k"), m, C), key_roots={"k": key}, domain=dom))

    def g3(V):
        z = cells(V.I.normals[0])
        smp = V.out
        return pos, z3.And(*[sum(C[k, i] * (smp[k] - m[k]) for k in range(n)) == z[i] for i in range(n)])
    obs.append(Obligation(f"mvn_sample(key, m, C) = m + w with C^T w = z, z the standard normal draw  [n={n}]", [e3], g3, signature=f"lemma:mvn_sample:{n}"))
    return obs


# ------------------------------------------------------------------ IWLS glue
@contextlib.contextmanager
def stub_iwls_callees():
    import liesel.goose.iwls as iwls
    import liesel.goose.iwls_utils as iu
    saved = (iwls.solve, iwls.mvn_sample, iwls.mvn_log_prob)

    def flex(name, real, n, like):
        """contract stub for the call the lemma covers (the first n parameters, everything else at its default).  A call that passes further
        arguments is decomposed as  lemma-covered call + (real(all arguments) - real(first n)),  the difference being interpreted from the real
        code: zero for a behaviour-preserving option, otherwise it shows up in the glue obligations"""
        import inspect

        def f(*a, **kw):
            if len(a) == n and not kw:
                return stubs.stub(name, a, like(a), real=real)
            ba = inspect.signature(real).bind(*a, **kw)
            base = tuple(list(ba.arguments.values())[:n])
            core = stubs.stub(name, base, like(base), real=real)
            return core + (real(*a, **kw) - real(*base))
        return f
    iwls.solve = flex("solve", iu.solve, 2, lambda a: a[1])
    iwls.mvn_sample = flex("mvn_sample", iu.mvn_sample, 3, lambda a: a[1])
    iwls.mvn_log_prob = flex("mvn_log_prob", iu.mvn_log_prob, 3, lambda a: jnp.zeros(()))
    try:
        yield
    finally:
        iwls.solve, iwls.mvn_sample, iwls.mvn_log_prob = saved


def lp_pois(s):
    x = s["x"]
    return jnp.sum(s["y"] * x - jnp.exp(x)) - 0.5 * s["tau"] * jnp.sum(x) ** 2


def iwls_glue(chk, n, user_chol, adaptive=False):
    import liesel.goose as gs
    import liesel.goose.iwls as iwls
    from liesel.goose.epoch import EpochConfig, EpochType
    name = f"IWLS[n={n}{',chol_info_fn' if user_chol else ''}{',adaptation epoch' if adaptive else ''}]"

    def real_chol(x, tau):
        F = jnp.diag(jnp.exp(x)) + tau
        return jnp.linalg.cholesky(F)

    def chol_fn(ms):
        return stubs.stub("chol_info", (ms["x"], ms["tau"]), jnp.eye(n), real=real_chol)
    k = iwls.IWLSKernel(["x"], chol_info_fn=chol_fn if user_chol else None)
    k.set_model(gs.DictInterface(lp_pois))
    ep = EpochConfig(EpochType.FAST_ADAPTATION if adaptive else EpochType.POSTERIOR, 10, 1, None).to_state(1, 0)

    def g(key, ss, x, y, tau):
        with stub_iwls_callees() if not stubs.SPY["on"] else stub_iwls_callees():
            # the transition used in adaptation epochs proposes, corrects and accepts exactly like the standard one (it only tunes afterwards)
            out = (k._adaptive_transition if adaptive else k._standard_transition)(key, iwls.IWLSKernelState(ss), {"x": x, "y": y, "tau": tau}, ep)
        return dict(acc=out.info.acceptance_prob, x=out.model_state["x"], moved=out.info.position_moved, code=out.info.error_code)
    key = jax.random.PRNGKey(5)
    sfx = f"{n}{int(user_chol)}{'a' if adaptive else ''}"
    ss, tau = z3.Real(f"s_{sfx}"), z3.Real(f"tau_{sfx}")
    x, y = sym_array(f"x_{sfx}", (n,)), sym_array(f"y_{sfx}", (n,))
    dom = {ss.decl().name(): (0.2, 1.0), tau.decl().name(): (0.2, 1.5)}
    enc = chk.note_enc(Enc(name, g, (key, 0.5, jnp.zeros(n) + 0.1, jnp.ones(n), 1.0), (root_key("k"), sc(ss), x, y, sc(tau)), chol="contract",
                           key_roots={"k": key}, domain=dom))
    I = enc.I
    pre = [ss > 0, tau > 0]

    def parts(V):
        exp = V.exp
        lp_ref = lambda xv: sum(y[i] * xv[i] - exp(xv[i]) for i in range(n)) - tau * sum(xv) * sum(xv) / 2
        grad_ref = lambda xv: [y[i] - exp(xv[i]) - tau * sum(xv) for i in range(n)]
        F_ref = lambda xv: [[(exp(xv[i]) if i == j else 0) + tau for j in range(n)] for i in range(n)]
        return lp_ref, grad_ref, F_ref

    def chol_records(V):
        """(argument, factor) of the two information factorizations"""
        if user_chol:
            (a1, o1), (a2, o2) = V.call("chol_info", 0), V.call("chol_info", 1)
            return (a1, o1[0]), (a2, o2[0])
        if V.replay:
            return None
        if len(V.I.chols) != 2:
            raise Inconclusive(f"expected two information factorizations (current point, proposal), the trace has {len(V.I.chols)}")
        (A1, L1), (A2, L2) = V.I.chols
        return (A1, L1), (A2, L2)

    obs = []

    def mk(nm, f, sig=None):
        obs.append(Obligation(f"{name}: {nm}", [enc], f, signature=f"{name}:{sig or nm}"))

    def o_counts(V):
        return [], z3.BoolVal(V.ncalls("solve") == 2 and V.ncalls("mvn_sample") == 1 and V.ncalls("mvn_log_prob") == 2
                              and (V.ncalls("chol_info") == 2 if user_chol else len(V.I.chols) == 2))
    mk("two solves, one draw, forward and backward proposal density, two factorizations", o_counts, "counts")

    def o_chol1(V):
        lp_ref, grad_ref, F_ref = parts(V)
        rec = chol_records(V)
        if rec is None:
            return [], z3.BoolVal(True)
        (a1, L1), (a2, L2) = rec
        if user_chol:
            return pre, z3.And(all_eq(a1[0], x), all_eq(a2[0], V.call("mvn_sample")[1][0]))
        prop = V.call("mvn_sample")[1][0]
        return pre, z3.And(all_eq(a1, np.array(F_ref(list(x)), dtype=object)), all_eq(a2, np.array(F_ref(list(prop)), dtype=object)))
    mk("information is evaluated at the current point (forward) and at the proposal (backward)" + ("" if user_chol else ": cholesky(-Hessian) arguments = F(x), F(x')"), o_chol1, "info-points")

    def o_solve(V):
        lp_ref, grad_ref, F_ref = parts(V)
        (s1a, s1o), (s2a, s2o) = V.call("solve", 0), V.call("solve", 1)
        prop = V.call("mvn_sample")[1][0]
        hy = list(pre)
        goal = [all_eq(s1a[1], np.array(grad_ref(list(x)), dtype=object)), all_eq(s2a[1], np.array(grad_ref(list(prop)), dtype=object))]
        rec = chol_records(V)
        if rec is not None:
            goal += [all_eq(s1a[0], rec[0][1]), all_eq(s2a[0], rec[1][1])]
        return hy, z3.And(*goal)
    mk("solve receives (L(x), grad log pi(x)) and (L(x'), grad log pi(x')) with JAX's autodiff gradient = analytic gradient", o_solve, "solve-args")

    def o_sampler(V):
        (s1a, s1o) = V.call("solve", 0)
        ma, mo = V.call("mvn_sample")
        mean, fac = ma[-2], ma[-1]
        L1 = s1a[0]
        return pre, z3.And(all_eq(mean, np.array([x[i] + ss * ss / 2 * s1o[0][i] for i in range(n)], dtype=object)),
                           all_eq(fac, np.array([[L1[i, j] / ss for j in range(n)] for i in range(n)], dtype=object)))
    mk("the draw has mean x + s^2/2 F(x)^-1 grad and precision factor L(x)/s", o_sampler, "sampler-args")

    def o_fwd(V):
        ma, mo = V.call("mvn_sample")
        fa, fo = V.call("mvn_log_prob", 0)
        return pre, z3.And(all_eq(fa[0], mo[0]), all_eq(fa[1], ma[-2]), all_eq(fa[2], ma[-1]))
    mk("forward density q(x'|x) is evaluated at (x', mu(x), L(x)/s)", o_fwd, "fwd-args")

    def o_bwd(V):
        (s2a, s2o) = V.call("solve", 1)
        ma, mo = V.call("mvn_sample")
        prop = mo[0]
        ba, bo = V.call("mvn_log_prob", 1)
        L2 = s2a[0]
        return pre, z3.And(all_eq(ba[0], x), all_eq(ba[1], np.array([prop[i] + ss * ss / 2 * s2o[0][i] for i in range(n)], dtype=object)),
                           all_eq(ba[2], np.array([[L2[i, j] / ss for j in range(n)] for i in range(n)], dtype=object)))
    mk("backward density q(x|x') is evaluated at (x, mu(x'), L(x')/s)", o_bwd, "bwd-args")

    def o_acc(V):
        lp_ref, grad_ref, F_ref = parts(V)
        prop = V.call("mvn_sample")[1][0]
        fwd = cells(V.call("mvn_log_prob", 0)[1][0])[0]
        bwd = cells(V.call("mvn_log_prob", 1)[1][0])[0]
        E = lp_ref(list(prop)) - lp_ref(list(x)) + bwd - fwd
        e = V.exp(E)
        return pre, cells(V.out["acc"])[0] == z3.If(e <= 1, e, 1)
    mk("reported acceptance probability = min(1, exp(log pi(x') - log pi(x) + log q(x|x') - log q(x'|x)))", o_acc, "acc")

    def o_state(V):
        prop = V.call("mvn_sample")[1][0]
        mv = cells(V.out["moved"])[0]
        return pre, z3.And(*[cells(V.out["x"])[i] == z3.If(mv, prop[i], x[i]) for i in range(n)])
    mk("returned block = proposal if moved else current", o_state, "state")
    return obs


def iwls_second_use(chk):
    """a kernel state that has been used before -- returned by init_state at one model state, then by a transition at another -- carries
    nothing but tuning parameters: the next transition, after the REST of the model state changed (another kernel moved tau), is the one a
    fresh kernel state with the same step size gives.  Whole transitions, only cholesky is a contract."""
    import liesel.goose as gs
    import liesel.goose.iwls as iwls
    from liesel.goose.epoch import EpochConfig, EpochType
    n = 2
    k = iwls.IWLSKernel(["x"], initial_step_size=0.5)
    k.set_model(gs.DictInterface(lp_pois))
    ep = EpochConfig(EpochType.POSTERIOR, 10, 1, None).to_state(1, 0)

    def g(key0, key1, key2, x, y, tau0, tau1, tau2):
        ks0 = k.init_state(key0, {"x": x, "y": y, "tau": tau0})
        out1 = k._standard_transition(key1, ks0, {"x": x, "y": y, "tau": tau1}, ep)
        st2 = {"x": out1.model_state["x"], "y": y, "tau": tau2}
        out2 = k._standard_transition(key2, out1.kernel_state, st2, ep)
        ref2 = k._standard_transition(key2, iwls.IWLSKernelState(out1.kernel_state.step_size), st2, ep)
        return dict(acc=out2.info.acceptance_prob, x=out2.model_state["x"], racc=ref2.info.acceptance_prob, rx=ref2.model_state["x"])
    keys = [jax.random.PRNGKey(i) for i in (11, 12, 13)]
    x, y = sym_array("su_x", (n,)), sym_array("su_y", (n,))
    taus = [z3.Real(f"su_tau{i}") for i in range(3)]
    dom = {f"su_tau{i}": (0.2, 1.5) for i in range(3)}
    enc = chk.note_enc(Enc("IWLS[n=2] init_state, transition, transition after tau changed", g, (*keys, jnp.zeros(n) + 0.1, jnp.ones(n), 0.7, 1.0, 1.3),
                           (root_key("k0"), root_key("k1"), root_key("k2"), x, y, *[sc(t) for t in taus]), chol="contract", key_roots={"k0": keys[0], "k1": keys[1], "k2": keys[2]}, domain=dom, memo={}))

    def goal(V):
        return [t > 0 for t in taus], z3.And(all_eq(V.out["acc"], V.out["racc"]), all_eq(V.out["x"], V.out["rx"]))

    def replay(ob, model, rng):
        worst = None
        for t0, t1, t2 in ((0.7, 1.0, 1.3), (0.3, 0.3, 1.4), (1.2, 0.4, 0.4)):
            out = g(*keys, jnp.asarray([0.1, -0.2]), jnp.asarray([1.0, 2.0]), t0, t1, t2)
            d = max(abs(float(out["acc"]) - float(out["racc"])), float(jnp.max(jnp.abs(out["x"] - out["rx"]))))
            if worst is None or d > worst[0]:
                worst = (d, dict(tau_at_init=t0, tau_first_transition=t1, tau_second_transition=t2), dict(acceptance_prob=float(out["acc"]), with_fresh_kernel_state=float(out["racc"]),
                                                                                                       x=np.asarray(out["x"]).tolist(), x_with_fresh_kernel_state=np.asarray(out["rx"]).tolist()))
        return dict(reproduced=bool(worst[0] > 1e-5), inputs=worst[1], observed=worst[2], note="real kernel, real cholesky: second transition with the used kernel state vs a fresh one with the same step size")
    ob = Obligation("IWLS[n=2]: a kernel state that was initialised and used at other model states carries nothing but tuning parameters -- the next transition equals the one with a fresh "
                       "kernel state of the same step size (information re-evaluated at the current state)", [enc], goal, signature="IWLS:second-use", replay=replay, timeout_s=60)
    ob.probe_on_unknown = True         # a refutation the solver cannot complete (non-linear) is tried on the real code; it can only report, never discharge
    return [ob]


def iwls_monolithic(chk):
    """cross-check that does not depend on how the kernel is organised internally: the whole IWLS transition for n = 2, no callee re-bound
    (only cholesky is a contract), against the closed-form Metropolis-Hastings ratio for the Gaussian proposal N(x + s^2/2 F^-1 g, s^2 F^-1)"""
    import liesel.goose as gs
    import liesel.goose.iwls as iwls
    from liesel.goose.epoch import EpochConfig, EpochType
    n = 2
    k = iwls.IWLSKernel(["x"])
    k.set_model(gs.DictInterface(lp_pois))
    ep = EpochConfig(EpochType.POSTERIOR, 10, 1, None).to_state(1, 0)

    def g(key, ss, x, y, tau):
        out = k._standard_transition(key, iwls.IWLSKernelState(ss), {"x": x, "y": y, "tau": tau}, ep)
        return dict(acc=out.info.acceptance_prob, x=out.model_state["x"], moved=out.info.position_moved)
    key = jax.random.PRNGKey(8)
    ss, tau = z3.Real("mono_s"), z3.Real("mono_tau")
    x, y = sym_array("mono_x", (n,)), sym_array("mono_y", (n,))
    dom = {"mono_s": (0.3, 1.0), "mono_tau": (0.2, 1.5)}
    enc = chk.note_enc(Enc("IWLS[n=2] whole transition (no callee stubs)", g, (key, 0.5, jnp.zeros(n) + 0.1, jnp.ones(n), 1.0), (root_key("k"), sc(ss), x, y, sc(tau)), chol="contract",
                           key_roots={"k": key}, domain=dom))
    import liesel.goose.iwls_utils as iu
    c0 = float(iu.mvn_log_prob(jnp.zeros(n), jnp.zeros(n), jnp.eye(n)))

    def solve_llt(L, r):
        """v with L L^T v = r (n = 2, forward then backward substitution)"""
        u0 = r[0] / L[0, 0]
        u1 = (r[1] - L[1, 0] * u0) / L[1, 1]
        v1 = u1 / L[1, 1]
        v0 = (u0 - L[1, 0] * v1) / L[0, 0]
        return [v0, v1]

    def pieces(V):
        """oracle pieces shared by the two obligations; None if the trace does not have the expected shape (two factorizations, one normal draw,
        returned block = if-then-else between a proposal term and the current point)"""
        if len(V.I.chols) != 2 or not V.I.normals:
            return None
        (A1, L1), (A2, L2) = V.I.chols
        z = cells(V.I.normals[0])
        outx = cells(V.out["x"])
        if len(z) != n or not all(z3.is_app_of(t, z3.Z3_OP_ITE) for t in outx):
            return None
        P, acc_cond = [], []                     # the encoded proposal: the branch of the accept/reject select that is not the current point
        for t, xi in zip(outx, list(x)):
            c_, a_, b_ = t.arg(0), t.arg(1), t.arg(2)
            if b_.eq(xi):
                P.append(a_)
                acc_cond.append(c_)
            elif a_.eq(xi):
                P.append(b_)
                acc_cond.append(z3.Not(c_))
            else:
                return None
        exp, log = V.exp, V.log
        lp = lambda xv: sum(y[i] * xv[i] - exp(xv[i]) for i in range(n)) - tau * (xv[0] + xv[1]) * (xv[0] + xv[1]) / 2
        grad = lambda xv: [y[i] - exp(xv[i]) - tau * (xv[0] + xv[1]) for i in range(n)]
        F = lambda xv: [[(exp(xv[i]) if i == j else 0) + tau for j in range(n)] for i in range(n)]
        xs = list(x)
        v = solve_llt(L1, grad(xs))
        mu = [xs[i] + ss * ss / 2 * v[i] for i in range(n)]
        hy = [ss > 0, tau > 0] + [L1[i, i] > 0 for i in range(n)] + [L2[i, i] > 0 for i in range(n)]
        return dict(A1=A1, L1=L1, A2=A2, L2=L2, z=z, P=P, lp=lp, grad=grad, F=F, xs=xs, mu=mu, hy=hy, outx=outx, acc_cond=acc_cond)

    def goal_proposal(V):
        if V.replay:
            return [], z3.BoolVal(True)
        q = pieces(V)
        if q is None:
            return [], z3.BoolVal(False)
        L1, z, mu, P, xs = q["L1"], q["z"], q["mu"], q["P"], q["xs"]
        w1 = z[1] / L1[1, 1]
        w0 = (z[0] - L1[1, 0] * w1) / L1[0, 0]
        prop = [mu[0] + ss * w0, mu[1] + ss * w1]
        mv = cells(V.out["moved"])[0]
        return q["hy"], z3.And(all_eq(q["A1"], np.array(q["F"](xs), dtype=object)), *[P[i] == prop[i] for i in range(n)],
                               *[q["acc_cond"][i] == mv for i in range(n)])

    def goal(V):
        """for an ARBITRARY proposal p (the encoded proposal term is generalised to a fresh constant): the reported probability is the
        Metropolis-Hastings ratio with q(.|u) = N(u + s^2/2 F(u)^-1 grad(u), s^2 F(u)^-1), F(p) factorised by the second cholesky"""
        if V.replay:
            return [], z3.BoolVal(True)
        q = pieces(V)
        if q is None:
            return [], z3.BoolVal(False)
        L1, L2, mu, P, xs, lp, grad, F = q["L1"], q["L2"], q["mu"], q["P"], q["xs"], q["lp"], q["grad"], q["F"]
        log, exp = V.log, V.exp
        d1 = [P[i] - mu[i] for i in range(n)]
        f0 = (L1[0, 0] * d1[0] + L1[1, 0] * d1[1]) / ss
        f1 = (L1[1, 1] * d1[1]) / ss
        fwd = log(L1[0, 0]) + log(L1[1, 1]) - 2 * log(ss) - (f0 * f0 + f1 * f1) / 2 + V.c(np.float32(c0))
        v2 = solve_llt(L2, grad(P))
        mu2 = [P[i] + ss * ss / 2 * v2[i] for i in range(n)]
        d = [xs[i] - mu2[i] for i in range(n)]
        t0 = (L2[0, 0] * d[0] + L2[1, 0] * d[1]) / ss
        t1 = (L2[1, 1] * d[1]) / ss
        bwd = log(L2[0, 0]) + log(L2[1, 1]) - 2 * log(ss) - (t0 * t0 + t1 * t1) / 2 + V.c(np.float32(c0))
        e = exp(lp(P) - lp(xs) + bwd - fwd)
        tol = z3.RealVal("1/10000")
        dacc = cells(V.out["acc"])[0] - z3.If(e <= 1, e, 1)
        return q["hy"], z3.And(all_eq(q["A2"], np.array(F(P), dtype=object)), dacc <= tol, dacc >= -tol), list(P)

    def replay(ob, model, rng):
        """the real kernel at the solver's point (and two others), proposals recorded through the model interface, against numpy"""
        from ..zeval import model_value
        pts = []
        if model is not None:
            try:
                pts.append((float(model_value(model, ss, 0.5)), [float(model_value(model, c, 0.1)) for c in cells(x)], [float(model_value(model, c, 1.0)) for c in cells(y)], float(model_value(model, tau, 1.0))))
            except Exception:
                pass
        pts += [(0.7, [0.2, -0.3], [1.0, 2.0], 0.8), (1.6, [0.5, 0.1], [0.0, 3.0], 0.4)]
        worst = None
        for (s_, x_, y_, t_) in pts:
            if not (s_ > 0 and t_ > 0):
                continue
            seen = []

            class Rec(gs.DictInterface):
                def update_state(self, position, model_state):
                    if not any(isinstance(v_, jax.core.Tracer) for v_ in position.values()):
                        seen.append({k_: np.asarray(v_) for k_, v_ in position.items()})
                    return super().update_state(position, model_state)
            kk = iwls.IWLSKernel(["x"])
            kk.set_model(Rec(lp_pois))
            for sd in range(2):
                del seen[:]
                out = kk._standard_transition(jax.random.PRNGKey(sd), iwls.IWLSKernelState(s_), {"x": jnp.asarray(x_, jnp.float32), "y": jnp.asarray(y_, jnp.float32), "tau": jnp.asarray(t_, jnp.float32)}, ep)
                if not seen:
                    continue
                xp = np.asarray(seen[0]["x"], dtype=np.float64)
                xv, yv = np.asarray(x_, dtype=np.float64), np.asarray(y_, dtype=np.float64)
                lpn = lambda q: float(np.sum(yv * q - np.exp(q)) - 0.5 * t_ * np.sum(q) ** 2)
                gr = lambda q: yv - np.exp(q) - t_ * np.sum(q)
                Fm = lambda q: np.diag(np.exp(q)) + t_

                def logq(to, frm):
                    Fi = Fm(frm)
                    m_ = frm + s_ ** 2 / 2 * np.linalg.solve(Fi, gr(frm))
                    P = Fi / s_ ** 2
                    dd = to - m_
                    return float(0.5 * np.linalg.slogdet(P)[1] - 0.5 * dd @ P @ dd - np.log(2 * np.pi))
                want = min(1.0, float(np.exp(lpn(xp) - lpn(xv) + logq(xv, xp) - logq(xp, xv))))
                got = float(out.info.acceptance_prob)
                dev = abs(got - want)
                if worst is None or dev > worst[0]:
                    worst = (dev, dict(step_size=s_, x=x_, y=y_, tau=t_, key=[0, sd]), dict(reported_acceptance_prob=got, metropolis_hastings_ratio=want, realised_proposal=xp.tolist()))
        if worst is None:
            return dict(reproduced=False, note="no proposal observed")
        return dict(reproduced=bool(worst[0] > 2e-3), inputs=worst[1], observed=worst[2],
                    note="reported acceptance probability vs min(1, pi(x')q(x|x')/(pi(x)q(x'|x))) for the realised proposal and q = N(x + s^2/2 F^-1 g, s^2 F^-1) (float64 numpy)")
    ob1 = Obligation("IWLS[n=2], whole transition without re-bound callees: information = F(x); the proposal is mu(x) + s L(x)^-T z with z the standard normal draw; the returned block is the proposal if moved, else x",
                     [enc], goal_proposal, signature="IWLS:monolithic-proposal", replay=replay, timeout_s=240, twin=False)
    ob2 = Obligation("IWLS[n=2], whole transition without re-bound callees: for an arbitrary proposal p, information at p = F(p) and reported acceptance = min(1, exp(log pi(p) - log pi(x) + log q(x|p) - log q(p|x)))",
                     [enc], goal, signature="IWLS:monolithic-ratio", replay=replay, expand_logs=True, timeout_s=240, twin=False)
    ob1.probe_on_unknown = True
    # ob2 (the ratio for an arbitrary proposal, proposal term generalised) is a rational-function identity in 17 variables that z3/nlsat does not
    # close within minutes; the ratio is decided by the modular glue obligations above instead.  Kept for reference, not registered.
    return [ob1]


def iwls_multikey(chk):
    """IWLS on a block of two keys listed in non-alphabetical order: flat coordinates follow ravel_pytree (a0, a1, b)"""
    import liesel.goose as gs
    import liesel.goose.iwls as iwls
    k = iwls.IWLSKernel(["b", "a"])
    k.set_model(gs.DictInterface(K.lp_ab))

    def g(key, ss, st):
        with stub_iwls_callees():
            out = k._standard_transition(key, iwls.IWLSKernelState(ss), st, K.epoch_state(4, 0))
        return dict(acc=out.info.acceptance_prob, st=out.model_state, moved=out.info.position_moved)
    key = jax.random.PRNGKey(6)
    ss = z3.Real("mk_s")
    sst = symlike(K.STATE_AB, "mk")
    enc = chk.note_enc(Enc("IWLS[b,a] (two keys, n=3)", g, (key, 0.5, K.STATE_AB), (root_key("k"), sc(ss), sst), chol="contract", key_roots={"k": key},
                           domain={"mk_s": (0.2, 0.8), "mk_w": (1.0, 2.0), "mk_b": (0.0, 0.5)}))
    a, b, m, w = sst["a"], cells(sst["b"])[0], sst["m"], cells(sst["w"])[0]
    pre = [ss > 0, w > 0]
    flat = lambda aa, bb: [aa[0], aa[1], bb]

    def refs(V):
        lp = lambda f: -((f[0] - m[0]) * (f[0] - m[0]) + (f[1] - m[1]) * (f[1] - m[1])) * w / 2 - V.exp(f[2]) + f[2] * f[0] / 2
        grad = lambda f: [-(f[0] - m[0]) * w + f[2] / 2, -(f[1] - m[1]) * w, -V.exp(f[2]) + f[0] / 2]
        F = lambda f: [[w, 0, -V.c(0.5)], [0, w, 0], [-V.c(0.5), 0, V.exp(f[2])]]
        return lp, grad, F
    obs = []

    def o_info(V):
        lp, grad, F = refs(V)
        (A1, L1), (A2, L2) = V.I.chols
        prop = cells(V.call("mvn_sample")[1][0])
        x = flat(list(a), b)
        return pre, z3.And(all_eq(A1, np.array(F(x), dtype=object)), all_eq(A2, np.array(F(prop), dtype=object)))
    obs.append(Obligation("IWLS[b,a]: information (minus the autodiff Hessian) at x and at x' in ravel_pytree coordinate order (a0, a1, b)", [enc],
                          lambda V: (pre, z3.BoolVal(True)) if V.replay else o_info(V), signature="IWLS[b,a]:info"))

    def o_grad(V):
        lp, grad, F = refs(V)
        (s1a, s1o), (s2a, s2o) = V.call("solve", 0), V.call("solve", 1)
        prop = cells(V.call("mvn_sample")[1][0])
        return pre, z3.And(all_eq(s1a[1], np.array(grad(flat(list(a), b)), dtype=object)), all_eq(s2a[1], np.array(grad(prop), dtype=object)))
    obs.append(Obligation("IWLS[b,a]: solve receives the autodiff gradient = analytic gradient in the same coordinate order, at x and at x'", [enc], o_grad, signature="IWLS[b,a]:grad"))

    def o_acc(V):
        lp, grad, F = refs(V)
        prop = cells(V.call("mvn_sample")[1][0])
        fwd = cells(V.call("mvn_log_prob", 0)[1][0])[0]
        bwd = cells(V.call("mvn_log_prob", 1)[1][0])[0]
        e = V.exp(lp(prop) - lp(flat(list(a), b)) + bwd - fwd)
        mv = cells(V.out["moved"])[0]
        o = V.out["st"]
        return pre, z3.And(cells(V.out["acc"])[0] == z3.If(e <= 1, e, 1), o["a"][0] == z3.If(mv, prop[0], a[0]), o["a"][1] == z3.If(mv, prop[1], a[1]),
                           cells(o["b"])[0] == z3.If(mv, prop[2], b), all_eq(o["m"], m), cells(o["w"])[0] == w)
    obs.append(Obligation("IWLS[b,a]: acceptance = min(1, exp(dlogpi + bwd - fwd)); on acceptance every key of the block receives its own coordinates of the proposal", [enc], o_acc,
                          signature="IWLS[b,a]:acc-state"))
    return obs


# ------------------------------------------------------------------ RW and MH glue
def rw_glue(chk):
    k = K.make_kernel("rw", keys=["b", "a"])
    from liesel.goose.rw import RWKernelState

    def g(key, ss, st):
        out = k._standard_transition(key, RWKernelState(ss), st, K.epoch_state(4, 0))
        return dict(acc=out.info.acceptance_prob, st=out.model_state, moved=out.info.position_moved)
    key = jax.random.PRNGKey(7)
    ss = z3.Real("rw_s")
    sst = symlike(K.STATE_AB, "rw")
    enc = chk.note_enc(Enc("RW[b,a]", g, (key, 0.5, K.STATE_AB), (root_key("k"), sc(ss), sst), key_roots={"k": key}, domain={"rw_s": (0.1, 1.0), "rw_w": (0.5, 2)}))

    def lp(V, a, b):
        m, w = sst["m"], cells(sst["w"])[0]
        return -sum((a[i] - m[i]) * (a[i] - m[i]) for i in range(2)) * w / 2 - V.exp(b) + b * a[0] / 2

    def goal(V):
        z = cells(V.I.normals[0])        # flat order of ravel_pytree: a0, a1, b
        a, b = sst["a"], cells(sst["b"])[0]
        pa = [a[0] + ss * z[0], a[1] + ss * z[1]]
        pb = b + ss * z[2]
        e = V.exp(lp(V, pa, pb) - lp(V, list(a), b))
        mv = cells(V.out["moved"])[0]
        o = V.out["st"]
        return [ss > 0], z3.And(cells(V.out["acc"])[0] == z3.If(e <= 1, e, 1),
                                *[o["a"][i] == z3.If(mv, pa[i], a[i]) for i in range(2)], cells(o["b"])[0] == z3.If(mv, pb, b),
                                all_eq(o["m"], sst["m"]), all_eq(o["w"], sst["w"]))
    return [Obligation("RWKernel: proposal = x + s z per flat coordinate (symmetric), acceptance = min(1, pi(x')/pi(x)), no correction", [enc], goal, signature="RW:glue")]


def mh_glue(chk):
    """user proposal + declared log-correction reach the acceptance rule unchanged (real mode)"""
    import liesel.goose as gs
    from liesel.goose.rw import RWKernelState

    def prop_fn(key, ms, step):
        o = stubs.stub("user_proposal", (key, ms["b"], step), dict(b=ms["b"], c=jnp.zeros(())),
                       real=lambda k_, b_, s_: dict(b=b_ + s_ * jax.random.normal(k_, ()), c=0.3 * s_ * jnp.sin(b_)))
        return gs.MHProposal({"b": o["b"]}, log_correction=o["c"])
    k = gs.MHKernel(["b"], prop_fn)
    k.set_model(gs.DictInterface(K.lp_ab))

    def g(key, ss, st):
        out = k._standard_transition(key, RWKernelState(ss), st, K.epoch_state(4, 0))
        return dict(acc=out.info.acceptance_prob, st=out.model_state, moved=out.info.position_moved)
    key = jax.random.PRNGKey(9)
    ss = z3.Real("mh_s")
    sst = symlike(K.STATE_AB, "mh")
    enc = chk.note_enc(Enc("MH[b]", g, (key, 0.5, K.STATE_AB), (root_key("k"), sc(ss), sst), key_roots={"k": key}, domain={"mh_s": (0.1, 1.0), "mh_w": (0.5, 2)}))

    def goal(V):
        a, b = sst["a"], cells(sst["b"])[0]
        m, w = sst["m"], cells(sst["w"])[0]
        lp = lambda bb: -sum((a[i] - m[i]) * (a[i] - m[i]) for i in range(2)) * w / 2 - V.exp(bb) + bb * a[0] / 2
        pa, po = V.call("user_proposal")
        pb, corr = cells(po[0])[0], cells(po[1])[0]
        e = V.exp(lp(pb) - lp(b) + corr)
        mv = cells(V.out["moved"])[0]
        return [ss > 0], z3.And(cells(V.out["acc"])[0] == z3.If(e <= 1, e, 1), cells(V.out["st"]["b"])[0] == z3.If(mv, pb, b),
                                cells(pa[-1])[0] == ss, cells(pa[-2])[0] == b, all_eq(V.out["st"]["a"], a))
    return [Obligation("MHKernel: acceptance = min(1, pi(x')/pi(x) * exp(user log-correction)); proposal function receives the kernel's step size and the current state",
                       [enc], goal, signature="MH:glue")]


REAL = {"lp": jnp.float32(0.0), "c": jnp.float32(0.0)}


def mh_fp32(chk):
    """the declared correction reaches mh_step for every float32 value (+-inf included)"""
    import liesel.goose as gs
    from liesel.goose.rw import RWKernelState
    from .c05 import ORDERS, delta, exp_axioms

    def prop_fn(key, ms, step):
        o = stubs.stub("user_proposal32", (ms["lp"], step), dict(lp=ms["lp"], c=jnp.zeros(())), real=lambda l_, s_: dict(lp=REAL["lp"], c=REAL["c"]))
        return gs.MHProposal({"lp": o["lp"]}, log_correction=o["c"])
    k = gs.MHKernel(["lp"], prop_fn)
    k.set_model(gs.DictInterface(lambda s: s["lp"]))

    def g(key, ss, cur):
        out = k._standard_transition(key, RWKernelState(ss), {"lp": cur}, K.epoch_state(4, 0))
        return dict(acc=out.info.acceptance_prob, code=out.info.error_code)
    key = jax.random.PRNGKey(11)
    F = z3.Float32()
    cur, ss = z3.FP("mh32_cur", F), z3.FP("mh32_s", F)
    enc = chk.note_enc(Enc("MH.fp32", g, (key, 0.5, 1.0), (root_key("k"), sc(ss), sc(cur)), mode="fp32", key_roots={"k": key}))
    I = enc.I

    def goal(V):
        po = V.call("user_proposal32")[1]
        prop, corr = cells(po[1])[0], cells(po[0])[0]     # dict leaves sorted: c, lp
        one, ninf = z3.FPVal(1, F), z3.fpMinusInfinity(F)
        alts = []
        for od in ORDERS:
            d = delta(od, prop, cur, corr)
            nan = z3.fpIsNaN(d)
            e = I.exp(z3.If(nan, ninf, d))
            alts.append(z3.And(cells(V.out["acc"])[0] == z3.If(z3.fpLEQ(e, one), e, one), cells(V.out["code"])[0] == z3.If(nan, 90, 0)))
        g_ = z3.Or(*alts)
        return exp_axioms(I), g_

    def replay(ob, model, rng):
        from ..zeval import model_value
        from .c05 import np_delta
        po = enc.view.call("user_proposal32")[1]
        f32 = np.float32
        vals = dict(prop=model_value(model, cells(po[1])[0], f32(0)), corr=model_value(model, cells(po[0])[0], f32(0)), cur=model_value(model, cur, f32(0)))
        tries = [vals, dict(prop=f32(0.0), corr=f32(-np.inf), cur=f32(1.0)), dict(prop=f32(0.0), corr=f32(np.inf), cur=f32(1.0)), dict(prop=f32(0.0), corr=f32(np.nan), cur=f32(1.0))]
        for v in tries:
            REAL.update(lp=jnp.float32(v["prop"]), c=jnp.float32(v["corr"]))
            with stubs.spy():
                out = g(key, jnp.float32(0.5), jnp.float32(v["cur"]))
            acc, code = f32(out["acc"]), int(out["code"])
            ok = False
            with np.errstate(all="ignore"):
                for od in ORDERS:
                    d = np_delta(od, f32(v["prop"]), f32(v["cur"]), f32(v["corr"]))
                    nan = bool(np.isnan(d))
                    want = f32(min(f32(1), f32(jnp.exp(jnp.float32(-np.inf if nan else d)))))
                    if abs(float(acc) - float(want)) <= 4e-7 * abs(float(want)) + 1e-45 and code == (90 if nan else 0):
                        ok = True
            if not ok:
                return dict(reproduced=True, inputs={k_: float(x_) for k_, x_ in v.items()}, observed=dict(acc=float(acc), code=code),
                            note="acceptance probability / error code differ from min(1, exp(log pi' - log pi + declared correction))")
        return dict(reproduced=False, note="real MHKernel agrees with the rule at the solver's point and at +-inf/NaN corrections")
    return [Obligation("MHKernel: the declared log-correction reaches the acceptance rule unchanged for every float32 value (incl. +-inf, NaN)", [enc], goal,
                       signature="MH:correction-fp32", replay=replay, timeout_s=300)]


def main():
    chk = Check("C06")
    obs = []
    dims = [1, 2] if chk.tier == "quick" else [1, 2, 3]
    for n in dims:
        obs += lemmas(chk, n)
    # the modular glue needs the kernel to call iwls_utils.solve / mvn_sample / mvn_log_prob by these names; if a refactoring removes them the
    # glue is reported as not applicable (inconclusive) and only the whole-transition obligation below speaks
    for nm, fn, args in [(f"iwls-glue:{n}", iwls_glue, (chk, n, False)) for n in ([2] if chk.tier == "quick" else [1, 2, 3])] + [("iwls-glue:user-chol", iwls_glue, (chk, 2, True)), ("iwls-glue:adaptive", iwls_glue, (chk, 2, False, True)),
                                                                                                                            ("iwls-multikey", iwls_multikey, (chk,))]:
        try:
            obs += fn(*args)
        except AttributeError as ex:
            chk.harness_error(nm, f"modular IWLS glue not applicable to this tree (callee names changed?): {ex}")
    obs += iwls_monolithic(chk)
    obs += chk.guarded("IWLS:second-use:trace", "tracing two consecutive IWLS transitions", iwls_second_use, chk) or []
    obs += rw_glue(chk)
    obs += mh_glue(chk)
    obs += mh_fp32(chk)
    for e in chk.encs:
        if e.I.mode == "real":
            chk.validated_points += e.validate(chk.rng, npoints=1)
    chk.run(obs)
    chk.functions += ["liesel.goose.iwls_utils.solve", "liesel.goose.iwls_utils.mvn_log_prob", "liesel.goose.iwls_utils.mvn_sample",
                      "liesel.goose.iwls.IWLSKernel._standard_transition/_score/_chol_info/_flat_log_prob_fn (jax.grad, jax.jacfwd resolved in the jaxpr)",
                      "liesel.goose.rw.RWKernel._standard_transition", "liesel.goose.mh_kernel.MHKernel._standard_transition", "liesel.goose.mh.mh_step"]
    chk.bounds += [f"block dimension n in {dims} for the lemmas; IWLS glue n = {[2] if chk.tier == 'quick' else [1, 2, 3]}; RW block of two keys (shapes (2,), ())",
                   "all current points, step sizes s > 0, data, draws: symbolic reals", "one transition"]
    chk.enumerated += ["targets: Poisson-type log density with coupled quadratic penalty (non-diagonal information); toy coupled density for RW/MH",
                       "IWLS with autodiff Hessian and with a user chol_info_fn (stubbed, position dependent)"]
    chk.assume("cholesky(A) is a lower factor with positive diagonal and L L^T = A (contract stub; information p.d.)",
               "jax.random.normal returns an arbitrary real vector (standard normal draw), memoised by key term",
               "composition (written in DESIGN.md): lemmas + glue => acceptance = min(1, pi(x')q(x|x')/(pi(x)q(x'|x))) for q = N(x + s^2/2 F^-1 g, s^2 F^-1)",
               "real arithmetic; mvn_log_prob's normalising constant compared up to 1e-5 (float32 constant folding)",
               "MH fp32 obligation: model = DictInterface reading a state entry; exp axioms as in C05")
    return chk.finish(technique=TECH)
