"""C16 Epoch schedules accepted iff valid; Stan warmup adds up to the request (Engine A, CrossHair)."""
from ..chrun import Cond, run_conditions
from ..harness import Check

TECH = "CrossHair symbolic execution (z3 per path) of the real EpochManager / stan_epochs with symbolic integer arguments against reference predicates; one process per condition"


def main():
    chk = Check("C16")
    M = "vf.ch.h_c16"
    conds = [Cond(M, "check_iff3", "EpochManager accepts a schedule of <= 3 epochs iff it is valid; handed-out epoch states carry consecutive indices and prefix-sum start times", 300),
             Cond(M, "check_append_later", "appending an epoch after epochs were handed out is accepted iff the extended schedule is valid", 300),
             Cond(M, "check_stan", "stan_epochs (warmup <= 3000): valid schedule, fast / doubling-slow / fast pattern, warmup durations sum to the request, one posterior epoch", 300),
             Cond(M, "check_stan_rejects", "stan_epochs raises ValueError for a warmup shorter than 20 or than init + term + base", 120)]
    conds.append(Cond("vf.ch.h_builder", "check_chunk", "EngineBuilder.build: the JIT chunk length handed to the engine divides every epoch duration (three symbolic durations <= 24; math.gcd re-bound to a pure-Python Euclid)", 300))
    conds.append(Cond("vf.ch.h_builder", "check_set_duration", "EngineBuilder.set_duration(warmup, posterior, term, thinning_posterior, thinning_warmup) configures exactly stan_epochs' schedule for these arguments", 300))
    if chk.tier == "thorough":
        conds += [Cond(M, "check_iff4", "EpochManager accept-iff-valid for schedules of exactly 4 epochs", 1500),
                  Cond(M, "check_stan_wide", "stan_epochs for warmup <= 100000", 900)]
    run_conditions(chk, conds)
    chk.functions += ["liesel.goose.epoch.EpochManager.__init__/append/next/has_more", "liesel.goose.epoch.EpochConfig.to_state", "liesel.goose.epoch.EpochType.is_warmup", "liesel.goose.warmup.stan_epochs", "liesel.goose.builder.EngineBuilder.build (chunk length)"]
    chk.bounds += ["schedules of <= 3 epochs (thorough: 4) with symbolic type in 0..4, unbounded symbolic duration and thinning", "stan_epochs: warmup <= 3000 (thorough 1e5), all seven arguments symbolic, posterior thinning 1..6 with posterior = thinning * q"]
    chk.assume("admissible stan_epochs arguments: init, term, base >= 1; warmup >= max(20, init+term+base); 1 <= thinning_warmup <= min(init, term, base); thinning_posterior divides posterior; base = 0 (non-terminating loop) excluded",
               "builder chunk: Engine re-bound to a recorder, jax in the builder re-bound to the key-term stand-in, math.gcd re-bound to a pure-Python Euclid (contract of math.gcd)")
    return chk.finish(technique=TECH)
