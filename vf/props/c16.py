"""C16 Epoch schedules accepted iff valid; Stan warmup adds up to the request (Engine A, CrossHair)."""
import time
import types

import z3

from .. import dse
from ..chrun import Cond, run_conditions
from ..harness import Check, Result

TECH = "CrossHair symbolic execution (z3 per path) of the real EpochManager / stan_epochs with symbolic integer arguments against reference predicates; one process per condition"


DMAX = 100000


def chunk_large(chk):
    """Engine C: EngineBuilder.build with three symbolic durations up to 1e5; math.gcd is a contract stub (returns some g >= 1 with
    d_i = g * q_i), Engine a recorder; on every path z3 decides `chunk >= 1 and chunk divides every duration`"""
    import liesel.goose as gs
    import liesel.goose.builder as bld
    from liesel.goose.epoch import EpochConfig, EpochType
    from liesel.option import Option
    from ..ch import fakeenv as fj

    class Rec:
        last = None

        def __init__(self, **kw):
            Rec.last = kw

    class FakeJax:
        Array = fj.KeyT
        random = types.SimpleNamespace(PRNGKey=lambda n: fj.KeyT(("seed", n)), split=lambda k, n=2: fj.KeyVec(k, n))
        vmap = staticmethod(lambda f, *a, **k: f)

    class FakeModel:
        def extract_position(self, keys, ms):
            return {k: ms[k] for k in keys}

        def update_state(self, pos, ms):
            return ms | pos

        def log_prob(self, ms):
            return 0.0
    D = [z3.Int(f"dur{i}") for i in range(3)]
    witness = {}

    def gcd(*xs):
        p = dse.ctx()
        g = z3.Int("gcd_result")
        p.assume(g >= 1)
        qs = []
        for i, x in enumerate(xs):
            q = z3.Int(f"gcd_q{i}")
            p.assume(z3.And(q >= 1, dse._ze(x) == g * q))
            qs.append(q)
        witness["q"] = qs
        return dse.SInt(g)

    def run(path):
        for d in D:
            path.assume(z3.And(d >= 1, d <= DMAX))
        b = gs.EngineBuilder(seed=1, num_chains=2)
        b.set_model(FakeModel())
        b._model_state = Option({"a": fj.Cell(("init", "a"))})
        b.add_kernel(gs.RWKernel(["a"]))
        b.set_epochs([EpochConfig(EpochType.INITIAL_VALUES, 1, 1, None)] + [EpochConfig(EpochType.BURNIN, dse.SInt(d), 1, None) for d in D])
        b.build()
        c = dse._as_int(dse._ze(Rec.last["jitted_sample_duration"]))
        qs = witness["q"]
        # first with the gcd stub's own witnesses (closes the unchanged code without non-linear reasoning), then directly
        v, m = path.valid(z3.And(c >= 1, *[d == c * q for d, q in zip(D, qs)]))
        if v == "unsat":
            return None
        path.solver.set("timeout", 60000)
        v, m = path.valid(z3.And(c >= 1, *[d % c == 0 for d in D]))
        if v == "unsat":
            return None
        if v == "sat":
            return dict(durations=[int(str(m.eval(d, model_completion=True))) for d in D])
        raise dse.Unsupported("z3 answered unknown on the divisibility postcondition (non-linear integer arithmetic)")

    class _Ob:
        name = f"EngineBuilder.build: the JIT chunk length divides every epoch duration, three symbolic durations up to {DMAX} (math.gcd as a contract: some common divisor >= 1)"
        signature = "chunk-large"
    saved = (bld.Engine, bld.math, bld.jax)
    bld.Engine, bld.math, bld.jax = Rec, types.SimpleNamespace(gcd=gcd), FakeJax
    t0 = time.time()
    try:
        stats, cex, complete = dse.explore(run, deadline=t0 + 300)
        err = None
    except Exception as ex:
        stats, cex, complete, err = dse.Stats(), [], False, f"{type(ex).__name__}: {ex}"
    finally:
        bld.Engine, bld.math, bld.jax = saved
    info = dict(tactic="dynamic symbolic execution + z3 (NIA) per path", paths=stats.paths, queries=stats.queries)
    chk.extra["chunk_large"] = dict(paths=stats.paths, solver_queries=stats.queries, solver_s=round(stats.solver_s, 2))
    if err:
        chk.record(Result(_Ob, "unknown", stats.solver_s, info, detail=err[:400]))
    elif cex:
        rp = None
        for cx in cex:
            rp = chunk_replay(cx["durations"])
            if rp["reproduced"]:
                break
        chk.record(Result(_Ob, "sat", stats.solver_s, info, replay=rp))
    elif not complete:
        chk.record(Result(_Ob, "unknown", stats.solver_s, info, detail="exploration incomplete"))
    else:
        chk.record(Result(_Ob, "unsat", stats.solver_s, info, twin="sat"))


def chunk_replay(durations):
    """the real builder and the real Engine (real jax) on the solver's durations"""
    import jax.numpy as jnp
    import liesel.goose as gs
    try:
        b = gs.EngineBuilder(seed=1, num_chains=2)
        b.set_model(gs.DictInterface(lambda s: -0.5 * s["a"] ** 2))
        b.set_initial_values({"a": jnp.array(0.1)})
        b.add_kernel(gs.RWKernel(["a"]))
        b.set_epochs([gs.EpochConfig(gs.EpochType.INITIAL_VALUES, 1, 1, None)] + [gs.EpochConfig(gs.EpochType.BURNIN, int(d), 1, None) for d in durations])
        b.show_progress = False
        e = b.build()
        c = int(e._jitted_sample_duration)
    except Exception as ex:
        return dict(reproduced=True, inputs=dict(durations=durations), exception=f"{type(ex).__name__}: {ex}")
    bad = c < 1 or any(d % c for d in durations)
    return dict(reproduced=bool(bad), inputs=dict(durations=durations), observed=dict(jitted_sample_duration=c, remainders=[d % c if c else None for d in durations]),
                note="real EngineBuilder.build() / Engine on real jax")


def stan_twice(chk):
    """concrete history: the schedule generator hands out a fresh list of fresh epoch configurations on every call -- customising one result
    (appending an epoch, editing a duration) must not show up in the next call with the same arguments, nor in EngineBuilder.set_duration"""
    import liesel.goose as gs
    from liesel.goose.epoch import EpochConfig, EpochType
    from liesel.goose.warmup import stan_epochs

    def view(eps):
        return [(int(e.type), int(e.duration), int(e.thinning)) for e in eps]

    def run():
        pr = []
        for args, kw in (((300, 80), dict(term_duration=40, thinning_posterior=1, thinning_warmup=1)), ((200, 40), {})):
            first = stan_epochs(*args, **kw)
            ref = view(first)
            first.append(EpochConfig(EpochType.POSTERIOR, 10, 1, None))
            first.insert(len(first) - 2, EpochConfig(EpochType.BURNIN, 60, 1, None))
            try:
                first[1].duration = first[1].duration + 7
            except Exception:
                pass
            second = stan_epochs(*args, **kw)
            if view(second) != ref:
                pr.append(f"stan_epochs{args}{kw}: second call returns {view(second)[:4]}... (first call, before the caller customised its list: {ref[:4]}...)")
            if args == (300, 80):
                b = gs.EngineBuilder(1, 1)
                b.set_duration(300, 80, term_duration=40)
                if view(b.epochs) != ref:
                    pr.append(f"EngineBuilder.set_duration(300, 80, term_duration=40) installs {view(b.epochs)[:4]}... instead of {ref[:4]}...")
        return pr
    pr = chk.guarded("stan-twice", "stan_epochs called twice with a customised result in between", run)
    if pr:
        chk.violation("stan-twice", "the schedule generator's results are not independent of each other: " + "; ".join(pr[:2]), dict(reproduced=True, observed=dict(problems=pr), note="concrete history on the real code"))
    chk.enumerated.append("history: stan_epochs twice with the same arguments, first result customised in between (also through EngineBuilder.set_duration)")


def main():
    chk = Check("C16")
    M = "vf.ch.h_c16"
    conds = [Cond(M, "check_iff3", "EpochManager accepts a schedule of <= 3 epochs iff it is valid; handed-out epoch states carry consecutive indices and prefix-sum start times", 300),
             Cond(M, "check_iff3", "EpochManager given the schedule as a one-shot generator (any iterable is accepted): accepts iff valid, hands out every epoch", 300, env={"FORM": "generator"}, signature="check_iff3:generator"),
             Cond(M, "check_append_later", "appending an epoch after epochs were handed out is accepted iff the extended schedule is valid", 300),
             *[Cond(M, "check_append_sequence", f"two appends in a row on a live manager (constructor schedule of {ncf} epoch(s){', the last of type ' + str(lt) if lt >= 0 else ''}): each accepted iff the schedule "
                    "accepted so far extended by it is valid (a rejected append leaves no trace); handed-out states follow the accepted schedule", 600,
                    env={"NCF": str(ncf), "LASTT": str(lt)}, signature=f"check_append_sequence:{ncf}:{lt}") for ncf, lt in ((1, -1), (2, 1), (2, 2), (2, 3), (2, 4))],
             Cond(M, "check_stan", "stan_epochs (warmup <= 3000): valid schedule, fast / doubling-slow / fast pattern, warmup durations sum to the request, one posterior epoch", 300),
             Cond(M, "check_stan_rejects", "stan_epochs raises ValueError for a warmup shorter than 20 or than init + term + base", 120)]
    conds.append(Cond("vf.ch.h_builder", "check_chunk", "EngineBuilder.build: the JIT chunk length handed to the engine divides every epoch duration (three symbolic durations <= 24; math.gcd re-bound to a pure-Python Euclid)", 300))
    conds.append(Cond("vf.ch.h_builder", "check_set_duration", "EngineBuilder.set_duration(warmup, posterior, term, thinning_posterior, thinning_warmup) configures exactly stan_epochs' schedule for these arguments", 300))
    if chk.tier == "thorough":
        conds += [Cond(M, "check_iff4", "EpochManager accept-iff-valid for schedules of exactly 4 epochs", 1500),
                  Cond(M, "check_stan_wide", "stan_epochs for warmup <= 100000", 900)]
    run_conditions(chk, conds)
    import os
    if os.environ.get("VERIF_ONLY") in (None, "", "chunk-large"):
        chunk_large(chk)
    if os.environ.get("VERIF_ONLY") in (None, "", "stan-twice"):
        stan_twice(chk)
    chk.functions += ["liesel.goose.epoch.EpochManager.__init__/append/next/has_more", "liesel.goose.epoch.EpochConfig.to_state", "liesel.goose.epoch.EpochType.is_warmup", "liesel.goose.warmup.stan_epochs", "liesel.goose.builder.EngineBuilder.build (chunk length)"]
    chk.bounds += ["schedules of <= 3 epochs (thorough: 4) with symbolic type in 0..4, unbounded symbolic duration and thinning", f"builder chunk: three symbolic durations <= 24 (CrossHair, Euclid executed) and <= {DMAX} (Engine C, gcd as a contract)", "stan_epochs: warmup <= 3000 (thorough 1e5), all seven arguments symbolic, posterior thinning 1..6 with posterior = thinning * q"]
    chk.assume("admissible stan_epochs arguments: init, term, base >= 1; warmup >= max(20, init+term+base); 1 <= thinning_warmup <= min(init, term, base); thinning_posterior divides posterior; base = 0 (non-terminating loop) excluded",
               "builder chunk: Engine re-bound to a recorder, jax in the builder re-bound to the key-term stand-in, math.gcd re-bound to a pure-Python Euclid (contract of math.gcd)")
    return chk.finish(technique=TECH)
