"""C01 Model cache coherence: an update restores exactly the from-scratch values (Engine A, CrossHair)."""
import os

from ..chrun import Cond, run_conditions
from ..harness import Check

TECH = ("CrossHair symbolic execution (z3 per path) of the real Value.value setter / Node.flag_outdated / Model.update(*names) / Model.state / Calc.update / Dist.update on real models with "
        "symbolic integer node values and symbolic outdated flags: one operation from an arbitrary state satisfying the cache invariant (inductive step)")
OPS = {"check_assign": "assigning a value node: auto-update on => nothing outdated and all values from scratch; off => exactly the downstream nodes are flagged, nothing else is touched",
       "check_update_all": "Model.update(): afterwards no node is outdated and every node holds the from-scratch value; each node function ran at most once and only if it was outdated",
       "check_update_target": "Model.update(name): the target and all its ancestors (incl. a distribution's `at` input) are up to date and hold from-scratch values, unrelated nodes untouched",
       "check_toggle_and_state": "toggling auto-update and saving/restoring the state change neither values nor flags and evaluate nothing",
       "check_restore": "restoring a saved state over an arbitrary current state gives exactly the saved values and flags"}


NV = {"chain": 2, "diamond": 2, "dist": 4, "weak": 2, "dist2": 2}
NC = {"chain": 4, "diamond": 4, "dist": 6, "weak": 4, "dist2": 4}


def set_seed_obligations(chk):
    """Engine B: Model.set_seed(key) is a value assignment to the model's seed inputs like any other -- afterwards (after update() when
    auto-update is off) every seeded node and everything downstream holds the value computed from the NEW seeds"""
    import jax
    import jax.numpy as jnp
    import numpy as np
    import z3
    import liesel.model as lsl
    from ..harness import Enc, Obligation, cells
    from ..jx2smt import root_key
    obs = []
    for auto in (True, False):
        x = lsl.Var(0.5, name="x")
        noise = lsl.Var(lsl.Calc(lambda x, seed: x + jax.random.normal(seed, ()), x, _needs_seed=True), name="noise")
        jit = lsl.Var(lsl.Calc(lambda seed: 3.0 * jax.random.normal(seed, ()), _needs_seed=True), name="jitter")
        y = lsl.Var(lsl.Calc(lambda n, j: 2.0 * n + j + 1.0, noise, jit), name="y")
        model = lsl.GraphBuilder().add(y).build_model()
        model.auto_update = auto
        st0 = model.state

        def f(xv, key, model=model, auto=auto):
            model.vars["x"].value = xv
            if not auto:
                model.update()
            model.set_seed(key)
            if not auto:
                model.update()
            return dict(noise=model.vars["noise"].value, jitter=model.vars["jitter"].value, y=model.vars["y"].value,
                        stale=jnp.asarray(float(sum(bool(n.outdated) for n in model.nodes.values()))))
        xs = z3.Real(f"setseed_x_{int(auto)}")
        key = jax.random.PRNGKey(5)
        enc = chk.note_enc(Enc(f"Model.set_seed (auto-update {'on' if auto else 'off'})", f, (0.25, key), (np.array(xs, dtype=object).reshape(()), root_key("newseed")), key_roots={"newseed": key}))
        model.state = st0

        def goal(V, xs=xs):
            o = V.out
            zs = [d for d in V.I.draws if d["kind"] == "normal" and "newseed" in repr(d["keys"][0])]
            keys = {repr(d["keys"][0]) for d in zs}
            if len(zs) < 2 or len(keys) < 2:
                return [], z3.BoolVal(False)
            alts = []
            for a in zs:
                for b in zs:
                    if a is not b and repr(a["keys"][0]) != repr(b["keys"][0]):
                        za, zb = cells(a["out"])[0], cells(b["out"])[0]
                        alts.append(z3.And(cells(o["noise"])[0] == xs + za, cells(o["jitter"])[0] == 3 * zb, cells(o["y"])[0] == 2 * (xs + za) + 3 * zb + 1))
            return [], z3.And(z3.Or(*alts), cells(o["stale"])[0] == 0)
        obs.append(Obligation(f"Model.set_seed(key), auto-update {'on' if auto else 'off (then update())'}: no node is outdated, every seeded node holds its function of a draw made with its own key derived "
                              "from the new key, and everything downstream is recomputed from those values", [enc], goal, signature=f"set_seed:auto={int(auto)}"))
    return obs


def raising_assignment(chk):
    """Engine C (vf/dse.py): graph `raiser` (a node function rejects input 13 by raising), auto-update on, from a fully up-to-date state with
    symbolic integer inputs: whether or not the assignment raises, every node that reports itself up to date afterwards holds the from-scratch
    value for the CURRENT inputs; without an exception nothing is outdated.  (CrossHair does not confirm this condition within 15 minutes.)"""
    import time
    import z3
    from .. import dse
    from ..harness import Result
    os.environ["GRAPH"] = "raiser"
    import importlib
    import vf.ch.h_c01 as h
    if h.GRAPH != "raiser":
        h = importlib.reload(h)
    Z = dict(a0=z3.Int("rz_a0"), b0=z3.Int("rz_b0"), new=z3.Int("rz_new"))

    def run(path):
        path.assume(Z["a0"] != 13)
        h.load([dse.SInt(Z["a0"]), dse.SInt(Z["b0"])], [0, 0, 0], [False, False, False], True)
        raised = False
        try:
            h.M.nodes["a"].value = dse.SInt(Z["new"])
        except dse.Unsupported:
            raise
        except dse.Infeasible:
            raise
        except Exception:
            raised = True
        cur = {n: h.M.nodes[n].value for n in h.VALUES}
        ref = dict(cur)
        for n in h.CACHING:
            ref[n] = h.F[n](ref)
        parts = [z3.BoolVal(raised) == (Z["new"] == 13)]
        for n in h.CACHING:
            if not h.M.nodes[n].outdated:
                parts.append(dse._as_int(dse._ze(h.M.nodes[n].value)) == dse._as_int(dse._ze(ref[n])))
                if n == "c":
                    parts.append(dse._as_int(dse._ze(cur["a"])) != 13)
            elif not raised:
                parts.append(z3.BoolVal(False))
        v, m = path.valid(z3.And(*parts))
        if v == "unsat":
            return None
        if v == "sat":
            return {k: int(str(m.eval(t, model_completion=True))) for k, t in Z.items()}
        raise dse.Unsupported("z3 unknown")

    class _Ob:
        name = ("[graph raiser, auto-update on] an assignment whose auto-update raises (a node function rejects the value) leaves every node that reports itself up to date "
                "with the from-scratch value for the current inputs; without an exception nothing is outdated")
        signature = "raiser:assign-raises"
    t0 = time.time()
    try:
        stats, cex, complete = dse.explore(run, deadline=t0 + 300)
        err = None
    except Exception as ex:
        stats, cex, complete, err = dse.Stats(), [], False, f"{type(ex).__name__}: {ex}"
    info = dict(tactic="dynamic symbolic execution + z3 per path", paths=stats.paths, queries=stats.queries)
    chk.extra["raising_assignment"] = dict(paths=stats.paths, solver_queries=stats.queries)
    if err or not complete and not cex:
        chk.record(Result(_Ob, "unknown", stats.solver_s, info, detail=err or "exploration incomplete"))
        return
    if not cex:
        chk.record(Result(_Ob, "unsat", stats.solver_s, info, twin="sat"))
        return
    # replay natively with plain ints
    c = cex[0]
    h.load([c["a0"], c["b0"]], [0, 0, 0], [False, False, False], True)
    try:
        h.M.nodes["a"].value = c["new"]
        raised = False
    except Exception:
        raised = True
    cur = {n: h.M.nodes[n].value for n in h.VALUES}
    ref = dict(cur)
    for n in h.CACHING:
        ref[n] = h.F[n](ref)
    bad = {n: (int(h.M.nodes[n].value), int(ref[n])) for n in h.CACHING if not h.M.nodes[n].outdated and h.M.nodes[n].value != ref[n]}
    stale = [n for n in h.CACHING if h.M.nodes[n].outdated]
    rep = bool(bad) or (not raised and bool(stale)) or (raised != (c["new"] == 13))
    chk.record(Result(_Ob, "sat", stats.solver_s, info, replay=dict(reproduced=rep, inputs=dict(a=c["a0"], b=c["b0"], assigned_to_a=c["new"]),
                                                                    observed=dict(raised=raised, inputs_after={k: int(v) for k, v in cur.items()}, up_to_date_but_wrong={k: dict(holds=v[0], from_scratch=v[1]) for k, v in bad.items()}, outdated=stale),
                                                                    note="plain-integer run of the same history on the real model")))


def main():
    chk = Check("C01")
    graphs = ["diamond", "weak", "dist2"] if chk.tier == "quick" else ["chain", "diamond", "dist", "weak", "dist2"]
    conds = []
    to = 2400 if chk.tier == "quick" else 3600      # a limit against runaway paths only: the slowest quick condition takes ~200 s on an idle 16-core machine, ~600 s on a loaded one
    for g in graphs:
        for t in range(NV[g]):
            for a in (0, 1):
                conds.append(Cond("vf.ch.h_c01", "check_assign", f"[graph {g}, input {t}, auto-update {'on' if a else 'off'}] {OPS['check_assign']}; the cache invariant is preserved", timeout_s=to,
                                  env={"GRAPH": g, "TGT": str(t), "AUTO": str(a)}, signature=f"{g}:check_assign"))
        for t in range(NC[g]):
            if chk.tier == "quick" and g == "dist2" and t == 1:
                continue
            conds.append(Cond("vf.ch.h_c01", "check_update_target", f"[graph {g}, target {t}] {OPS['check_update_target']}; the cache invariant is preserved", timeout_s=to,
                              env={"GRAPH": g, "TGT": str(t)}, signature=f"{g}:check_update_target"))
        if g in ("diamond", "weak"):
            # states that per-node restores / clear_state / partial state assignments reach: a node may be outdated while its dependants are up to date
            for a in (0, 1):
                conds.append(Cond("vf.ch.h_c01", "check_assign", f"[graph {g}, any input, auto-update {'on' if a else 'off'}, from a state in which outdated flags are NOT closed downwards (per-node restore, clear_state)] "
                                  + OPS["check_assign"], timeout_s=to, env={"GRAPH": g, "AUTO": str(a), "LOOSE": "1"}, signature=f"{g}:check_assign:loose"))
            conds.append(Cond("vf.ch.h_c01", "check_update_all", f"[graph {g}, from a state in which outdated flags are NOT closed downwards] {OPS['check_update_all']}", timeout_s=to,
                              env={"GRAPH": g, "LOOSE": "1"}, signature=f"{g}:check_update_all:loose"))
            for t1, t2 in ([(NC[g] - 1, 0)] if chk.tier == "quick" else [(NC[g] - 1, 0), (1, NC[g] - 2)]):
                conds.append(Cond("vf.ch.h_c01", "check_update_two", f"[graph {g}, targets {t1} and {t2}] Model.update(a, b): both targets and all their ancestors are up to date with from-scratch values, "
                                  "unrelated nodes untouched; the cache invariant is preserved", timeout_s=to, env={"GRAPH": g, "TGT": str(t1), "TGT2": str(t2)}, signature=f"{g}:check_update_two"))
        if chk.tier == "quick" and g == "dist2":
            continue          # full update / toggle are covered on the other graphs in the quick tier
        for fn in ("check_update_all", "check_toggle_and_state") + (("check_restore",) if chk.tier != "quick" and NC[g] <= 4 else ()):
            conds.append(Cond("vf.ch.h_c01", fn, f"[graph {g}] {OPS[fn]}; the cache invariant is preserved", timeout_s=to, env={"GRAPH": g}, signature=f"{g}:{fn}"))
    # a node that hands an argument through unchanged (recomputed value identical, as an object, to the cached one)
    for a in (0, 1):
        conds.append(Cond("vf.ch.h_c01", "check_assign", f"[graph pass, input 0, auto-update {'on' if a else 'off'}] {OPS['check_assign']}; the cache invariant is preserved", timeout_s=to,
                          env={"GRAPH": "pass", "TGT": "0", "AUTO": str(a)}, signature="pass:check_assign"))
    conds.append(Cond("vf.ch.h_c01", "check_update_all", f"[graph pass] {OPS['check_update_all']}; the cache invariant is preserved", timeout_s=to, env={"GRAPH": "pass"}, signature="pass:check_update_all"))
    conds.append(Cond("vf.ch.h_c01", "check_update_transient", "[graph chain] Model.update(name) with a transient node (it caches nothing itself) as the named target: all its caching ancestors are up to date with "
                      "from-scratch values afterwards, unrelated nodes untouched; the cache invariant is preserved", timeout_s=to, env={"GRAPH": "chain"}, signature="chain:check_update_transient"))
    run_conditions(chk, conds)
    if not os.environ.get("VERIF_ONLY") or os.environ.get("VERIF_ONLY", "").startswith("raiser"):
        chk.guarded("raiser", "assignment whose auto-update raises (Engine C)", raising_assignment, chk)
    if not os.environ.get("VERIF_ONLY") or os.environ.get("VERIF_ONLY", "").startswith("set_seed"):
        obs = chk.guarded("set_seed:trace", "tracing Model.set_seed", set_seed_obligations, chk)
        if obs:
            chk.run(obs)
    chk.functions += ["liesel.model.model.Model.set_seed (Engine B: jaxpr -> z3, sampler stubbed per key term)"]
    chk.functions += ["liesel.model.nodes.Value.value (setter)", "liesel.model.nodes.Node.flag_outdated / outdated / update / state", "liesel.model.nodes.TransientNode.outdated", "liesel.model.nodes.Calc.update / Dist.update",
                      "liesel.model.model.Model.update(*names) / _recursive_inputs / state (getter, setter) / auto_update", "liesel.model.nodes.Var.value (proxy nodes)"]
    chk.bounds += ["graphs of <= 10 nodes; node values unbounded symbolic integers, outdated flags and auto-update symbolic; ONE operation from an arbitrary invariant state (any finite history by induction)",
                   "integer-linear node functions (a stale value differs from the fresh one for some input)"]
    chk.enumerated += [f"graph {g}: " + {"chain": "chain through a transient calculation", "diamond": "two inputs sharing an intermediate calculation", "dist": "strong variables with distributions, value proxies, model-level totals",
                                         "weak": "weak variable (computed value) with a distribution: `at` edge to a calculation", "dist2": "observed strong variable with a distribution (value proxy), derived variable, model totals"}[g] for g in graphs] + ["graph pass: a node handing an argument through unchanged feeds a node that also reads the assigned input"]
    chk.assume("invariant: an up-to-date caching node holds f(current inputs) and all its caching ancestors (through transient nodes) are up to date", "outdatedness only ever arises from assignments, so 'evaluated only if outdated or downstream of the assigned node' is the property's 'only if an ancestor was assigned since'",
               "non-integer values, node functions that raise, and LieselInterface's flag clearing (C03/C09) are outside")
    return chk.finish(technique=TECH)
