"""C12 Mass-matrix adaptation is aligned with the parameters it scales (Engine B, real mode)."""
import jax
import jax.numpy as jnp
import numpy as np
import z3
from jax.flatten_util import ravel_pytree

from ..harness import Check, Enc, Obligation, all_eq, cells, symlike

TECH = "jaxpr of the real NUTSKernel/HMCKernel._tune_slow (and tune via lax.cond) interpreted over z3 reals; oracle = sample (co)variance of the ravel_pytree coordinates; z3/nlsat decides each negated obligation"
SHAPES = {"a": (2,), "z": (), "m": (2, 1), "W": (2, 2)}


def make(kind, keys, diag):
    import liesel.goose as gs
    K = gs.NUTSKernel if kind == "nuts" else gs.HMCKernel
    k = K(list(keys), initial_step_size=0.1, mm_diag=diag)
    k.set_model(gs.DictInterface(lambda s: 0.0))
    return k


def enc_for(chk, kind, keys, diag, T, via_tune=False):
    from liesel.goose.epoch import EpochConfig, EpochType
    from liesel.goose.hmc import HMCKernelState
    from liesel.goose.nuts import NUTSKernelState
    k = make(kind, keys, diag)
    KS = NUTSKernelState if kind == "nuts" else HMCKernelState
    d = sum(int(np.prod(SHAPES[x], dtype=int)) for x in keys)
    ep = EpochConfig(EpochType.SLOW_ADAPTATION, T, 1, None).to_state(1, 0)

    def g(ss, imm, hist):
        ks = KS(ss, imm)
        fn = k.tune if via_tune else k._tune_slow
        out = fn(jax.random.PRNGKey(0), ks, {}, ep, hist)
        # coordinate order in which blackjax applies the metric: ravel_pytree of the kernel's position
        flat = jax.vmap(lambda p: ravel_pytree(p)[0])({x: hist[x] for x in keys})
        return dict(imm=out.kernel_state.inverse_mass_matrix, ss=out.kernel_state.step_size, flat=flat)
    hist0 = {x: jnp.zeros((T,) + SHAPES[x]) + 0.1 * jnp.arange(T).reshape((T,) + (1,) * len(SHAPES[x])) for x in keys}
    hist0["other"] = jnp.linspace(0.0, 1.0, T)     # a foreign kernel's parameter present in the history
    imm0 = jnp.ones(d) if diag else jnp.eye(d)
    name = f"{kind}[{','.join(keys)}]{'diag' if diag else 'dense'}{'/tune' if via_tune else ''}"
    tag = name.replace("[", "_").replace("]", "_").replace(",", "").replace("/", "_")
    sym = (np.array(z3.Real(f"ss_{tag}"), dtype=object).reshape(()), symlike(imm0, f"imm_{tag}"), symlike(hist0, f"h_{tag}"))
    dom = {f"ss_{tag}": (0.05, 1.0)}
    for c in cells(sym[1]):
        dom[c.decl().name()] = (0.5, 2.0)
    e = chk.note_enc(Enc(name, g, (0.1, imm0, hist0), sym, domain=dom))
    return e, d, T, diag, sym


def obligations(e, d, T, diag, sym):
    name = e.name
    reg = np.float32(0.001)

    def cov_goal(V):
        flat = V.out["flat"]
        imm = V.out["imm"]
        mean = [sum(flat[t, i] for t in range(T)) / T for i in range(d)]
        cov = lambda i, j: sum((flat[t, i] - mean[i]) * (flat[t, j] - mean[j]) for t in range(T)) / (T - 1)
        if diag:
            goal = z3.And(*[imm[i] == cov(i, i) + V.c(reg) for i in range(d)])
        else:
            goal = z3.And(*[imm[i, j] == cov(i, j) + (V.c(reg) if i == j else 0) for i in range(d) for j in range(d)])
        return [], goal

    def ss_goal(V):
        imm, old = V.out["imm"], sym[1]
        tr_new = sum(imm[i] if diag else imm[i, i] for i in range(d))
        tr_old = sum(old[i] if diag else old[i, i] for i in range(d))
        ss_old = cells(sym[0])[0]
        pos = [ss_old > 0, tr_old > 0] + [(old[i] if diag else old[i, i]) > 0 for i in range(d)]
        return pos, cells(V.out["ss"])[0] == V.sqrt(tr_old / tr_new) * ss_old
    return [Obligation(f"{name}: entry i of the tuned inverse mass matrix = regularised sample (co)variance of flat coordinate i", [e], cov_goal,
                       signature=f"{name}:cov", tactic="default"),
            Obligation(f"{name}: step size rescaled by sqrt(tr old / tr new)", [e], ss_goal, signature=f"{name}:step", tactic="auto")]


def fp32_positivity(chk, T, dense=False):
    """float32: the tuned diagonal never falls below the regulariser (a variance computed in floats must not go negative)"""
    from liesel.goose.mm import tune_inv_mm_diag, tune_inv_mm_full
    from ..jx2smt import sym_array
    F = z3.Float32()
    tuner = tune_inv_mm_full if dense else tune_inv_mm_diag
    d = 2 if dense else 1

    def f(h):
        out = tuner({"z": h})
        return jnp.diag(out) if dense else out
    name = f"tune_inv_mm_{'full' if dense else 'diag'} (float32, T={T}, d={d})"
    h = sym_array(f"hfp{int(dense)}", (T, d) if dense else (T,), F)
    enc = chk.note_enc(Enc(name, f, (jnp.zeros((T, d)) if dense else jnp.zeros((T,)),), (h,), mode="fp32"))
    reg = z3.FPVal(float(np.float32(0.001)), F)
    big = z3.FPVal(1e15, F)
    hy = [z3.And(z3.Not(z3.fpIsNaN(x)), z3.fpLEQ(z3.fpAbs(x), big)) for x in cells(h)]

    def replay(ob, model, rng):
        from ..zeval import model_value
        hv = np.array([model_value(model, x, np.float32(0)) for x in cells(h)], dtype=np.float32).reshape(h.shape)
        out = np.asarray(f(jnp.asarray(hv)))
        bad = bool(np.any(~(out >= np.float32(0.001))))
        if not bad:
            # XLA may associate the sums differently from the encoding: look at the float32 neighbourhood of the solver's history
            # (a few ulps per entry, 4096 candidates, the real tuner evaluated on each) -- confirmation only
            cand = np.repeat(hv[None], 4096, axis=0)
            steps = rng.integers(-6, 7, size=cand.shape)
            for k in range(6):
                up = np.nextafter(cand, np.float32(np.inf), dtype=np.float32)
                dn = np.nextafter(cand, np.float32(-np.inf), dtype=np.float32)
                cand = np.where(steps > k, up, np.where(steps < -k, dn, cand)).astype(np.float32)
            outs = np.asarray(jax.vmap(f)(jnp.asarray(cand)))
            worst = np.nanmin(np.where(np.isnan(outs), -np.inf, outs).reshape(len(cand), -1), axis=1)
            j = int(np.argmin(worst))
            if not (worst[j] >= np.float32(0.001)):
                hv, out, bad = cand[j], outs[j], True
        return dict(reproduced=bad, inputs=dict(history=hv.tolist()), observed=dict(tuned_diagonal=out.tolist()),
                    note="tuned inverse-mass diagonal below the regulariser 0.001 (negative or NaN variance)" if bad else "real tuner gives a diagonal >= 0.001 at the solver's history")
    return [Obligation(f"{name}: every tuned diagonal entry >= the regulariser 0.001 for every finite float32 history (no cancellation to a negative variance)", [enc],
                       lambda V: (hy, z3.And(*[z3.fpGEQ(c, reg) for c in cells(V.out)])), signature=f"fp32-positivity:{'full' if dense else 'diag'}", replay=replay, timeout_s=900)]


def sequence_tune(chk, T):
    """KernelSequence.tune with two mass-matrix kernels whose identifiers are not in alphabetical order: entry i of the returned kernel states
    is kernel i's own tuning result (its matrix = (co)variance of ITS parameters' history)"""
    import liesel.goose as gs
    from liesel.goose.epoch import EpochConfig, EpochType
    from liesel.goose.hmc import HMCKernelState
    from liesel.goose.kernel_sequence import KernelSequence
    from liesel.goose.nuts import NUTSKernelState
    k1 = make("nuts", ("a",), True)
    k2 = make("hmc", ("m",), True)
    k1.identifier, k2.identifier = "regression", "aux"          # sequence order != alphabetical order
    seq = KernelSequence([k1, k2])
    ep = EpochConfig(EpochType.SLOW_ADAPTATION, T, 1, None).to_state(1, 0)

    def g(hist):
        out = seq.tune(jax.random.PRNGKey(0), [NUTSKernelState(0.1, jnp.ones(2)), HMCKernelState(0.2, jnp.ones(2))], {}, ep, hist)
        return dict(first=out.kernel_states[0].inverse_mass_matrix, second=out.kernel_states[1].inverse_mass_matrix)
    hist0 = {"a": jnp.zeros((T, 2)) + 0.1 * jnp.arange(T).reshape(T, 1), "m": (jnp.zeros((T, 2, 1)) + 0.3 * jnp.arange(T).reshape(T, 1, 1)) ** 2}
    sym = (symlike(hist0, "hseq"),)
    e = chk.note_enc(Enc("KernelSequence.tune [NUTS('a') as 'regression', HMC('m') as 'aux']", g, (hist0,), sym))
    reg = np.float32(0.001)

    def goal(V):
        h = sym[0]
        def var(col):
            mean = sum(col) / T
            return sum((c - mean) * (c - mean) for c in col) / (T - 1) + V.c(reg)
        fa = [[h["a"][t, i] for t in range(T)] for i in range(2)]
        fm = [[h["m"][t, i, 0] for t in range(T)] for i in range(2)]
        return [], z3.And(*[V.out["first"][i] == var(fa[i]) for i in range(2)], *[V.out["second"][i] == var(fm[i]) for i in range(2)])
    return [Obligation("KernelSequence.tune: the i-th returned kernel state is the i-th kernel's own tuning result (identifiers 'regression', 'aux': sequence order differs from alphabetical order)",
                       [e], goal, signature="sequence-tune", tactic="default")]


def main():
    chk = Check("C12")
    T = 3 if chk.tier == "quick" else 4
    family = []
    if chk.tier == "quick":
        family = [("nuts", ("a", "z"), True), ("nuts", ("z", "a"), True), ("nuts", ("z", "a"), False), ("hmc", ("z", "a"), True),
                  ("hmc", ("z", "a"), False), ("hmc", ("z", "m", "a"), True), ("nuts", ("z", "W"), True), ("hmc", ("W", "a"), False),
                  ("nuts", ("z",), False), ("hmc", ("z",), True)]        # a block with a single flat coordinate (dense: a 1x1 matrix)
    else:
        for kind in ("nuts", "hmc"):
            for keys in (("a", "z"), ("z", "a"), ("z", "m", "a"), ("m", "a"), ("z",), ("z", "W"), ("W", "a")):
                for diag in (True, False):
                    family.append((kind, keys, diag))
    obs = []
    for kind, keys, diag in family:
        spec = enc_for(chk, kind, keys, diag, T)
        obs += obligations(*spec)
    # through the public tune() (lax.cond on the epoch type) for one member per kernel
    for kind in ("nuts", "hmc"):
        spec = enc_for(chk, kind, ("z", "a"), True, T, via_tune=True)
        obs += obligations(*spec)
    # tuning after a FAST adaptation epoch must not touch step size or metric (only slow epochs adapt the mass matrix)
    for kind in ("nuts", "hmc"):
        from liesel.goose.epoch import EpochConfig, EpochType
        from liesel.goose.hmc import HMCKernelState
        from liesel.goose.nuts import NUTSKernelState
        k = make(kind, ("z", "a"), True)
        KS = NUTSKernelState if kind == "nuts" else HMCKernelState
        epf = EpochConfig(EpochType.FAST_ADAPTATION, T, 1, None).to_state(1, 0)

        def gf(ss, imm, hist, k=k, KS=KS):
            out = k.tune(jax.random.PRNGKey(0), KS(ss, imm), {}, epf, hist)
            return dict(imm=out.kernel_state.inverse_mass_matrix, ss=out.kernel_state.step_size)
        hist0 = {"z": jnp.linspace(0.0, 1.0, T), "a": jnp.zeros((T, 2)) + 0.1}
        symf = (np.array(z3.Real(f"ssf_{kind}"), dtype=object).reshape(()), symlike(jnp.ones(3), f"immf_{kind}"), symlike(hist0, f"hf_{kind}"))
        ef = chk.note_enc(Enc(f"{kind}.tune after a fast adaptation epoch", gf, (0.1, jnp.ones(3), hist0), symf, domain={f"ssf_{kind}": (0.05, 1.0)}))
        obs.append(Obligation(f"{kind}: tune() after a FAST adaptation epoch leaves step size and inverse mass matrix unchanged", [ef],
                              (lambda V, symf=symf: ([], z3.And(cells(V.out["ss"])[0] == cells(symf[0])[0], all_eq(V.out["imm"], symf[1])))), signature=f"{kind}:fast-tune"))
    for e in chk.encs:
        chk.validated_points += e.validate(chk.rng, npoints=1)
    obs += sequence_tune(chk, T)
    obs += fp32_positivity(chk, 3)
    if chk.tier == "thorough":
        obs += fp32_positivity(chk, 4) + fp32_positivity(chk, 3, dense=True)
    chk.run(obs)
    chk.functions += ["liesel.goose.nuts.NUTSKernel._tune_slow / tune", "liesel.goose.hmc.HMCKernel._tune_slow / tune",
                      "liesel.goose.mm.tune_inv_mm_diag", "liesel.goose.mm.tune_inv_mm_full", "liesel.goose.mm._history_to_matrix"]
    chk.bounds += [f"history of T = {T} recorded rows, all entries symbolic reals", "block shapes: scalar, vector (2,), matrices (2,1) and (2,2); total dimension <= 6",
                   "one slow-adaptation tuning call from an arbitrary old step size / inverse mass matrix (several epochs follow by repetition: the call has no other state)"]
    chk.enumerated += [f"{k}{list(ks)}{'diag' if d else 'dense'}" for k, ks, d in family] + ["nuts/hmc ['z','a'] diag via tune()"]
    chk.assume("blackjax applies the metric to ravel_pytree(position) (its documented coordinate order)", "alignment / (co)variance identities in real arithmetic; float32 only for the positivity obligation (|history| <= 1e15, no NaN)",
               "regulariser is float32(0.001) on the diagonal", "a foreign key ('other') is present in the history and must not influence the result")
    return chk.finish(technique=TECH)
