"""C11 Step-size adaptation follows dual averaging, frozen outside adaptation (Engine B, real mode)."""
import copy

import jax
import jax.numpy as jnp
import numpy as np
import z3

from .. import kernels as K
from ..harness import Check, Enc, Obligation, all_eq, cells, symlike
from ..jx2smt import root_key

TECH = "jaxprs of da_init/da_step/da_finalize and of each kernel's transition/start_epoch/end_epoch interpreted over z3 reals (UF exp/log/pow/sqrt, Ackermannised); z3 decides each negated obligation"
FIELDS = ("step_size", "error_sum", "log_avg_step_size", "mu")


class KS:
    pass


def da_fn(which):
    from liesel.goose.da import da_finalize, da_init, da_step

    def f(ss, es, la, mu, acc, t, target, gamma, kappa, t0):
        ks = KS()
        ks.step_size, ks.error_sum, ks.log_avg_step_size, ks.mu = ss, es, la, mu
        if which == "step":
            da_step(ks, acc, t, target, gamma, kappa, t0)
        elif which == "init":
            da_init(ks)
        else:
            da_finalize(ks)
        return dict(step_size=ks.step_size, error_sum=ks.error_sum, log_avg_step_size=ks.log_avg_step_size, mu=ks.mu)
    return f


def hg_recurrence(V, ks, acc, t, target, gamma, kappa, t0):
    """Hoffman & Gelman (2014) alg. 5 / Stan stepsize_adaptation::learn_stepsize, written with the
    same uninterpreted functions as the encoding"""
    powf = V.uf("pow", 2)
    m = z3.ToReal(t + 1) if z3.is_int(t) else t + 1
    t0r = z3.ToReal(t0) if z3.is_expr(t0) and z3.is_int(t0) else t0
    H = ks["error_sum"] + (target - acc)
    x = ks["mu"] - (V.sqrt(m) / gamma) * (1 / (m + t0r)) * H
    eta = powf(m, -kappa)
    xbar = eta * x + (1 - eta) * ks["log_avg_step_size"]
    return dict(step_size=V.exp(x), error_sum=H, log_avg_step_size=xbar, mu=ks["mu"])


def replay_da_step(ob, model, rng):
    """the real da_step against the recurrence in float64 at the solver's point and at far-field states (tiny / huge step sizes, long runs of
    rejections or acceptances); the step size is compared on the log scale so that very small values are not lost in an absolute tolerance"""
    f = da_fn("step")
    pts = []
    if model is not None:
        try:
            from ..harness import model_value
            v = {n: model_value(model, z3.Real(n)) for n in ("ss", "es", "la", "mu", "acc", "target", "gamma", "kappa")}
            ti = {n: model_value(model, z3.Int(n)) for n in ("t", "t0")}
            if all(x is not None for x in list(v.values()) + list(ti.values())) and v["ss"] > 0 and v["gamma"] > 0:
                pts.append((v["ss"], v["es"], v["la"], v["mu"], v["acc"], int(ti["t"]), v["target"], v["gamma"], v["kappa"], int(ti["t0"])))
        except Exception:
            pass
    for ss in (1e-9, 1e-3, 0.5, 1e4):
        for es in (0.0, 6.0, -6.0):
            for acc in (0.0, 0.3, 1.0):
                for t in (0, 7):
                    pts.append((ss, es, -0.2, float(np.log(10 * ss)), acc, t, 0.8, 0.05, 0.75, 10))
    worst = None
    for p_ in pts:
        ss, es, la, mu, acc, t, target, gamma, kappa, t0 = [float(x) for x in p_]
        m = t + 1.0
        H = es + (target - acc)
        x = mu - (np.sqrt(m) / gamma) / (m + t0) * H
        eta = m ** (-kappa)
        want = dict(log_step=x, error_sum=H, log_avg_step_size=eta * x + (1 - eta) * la, mu=mu)
        if not (-80.0 < x < 80.0):
            continue                       # outside float32's exponent range the step size legitimately under-/overflows
        out = f(*[jnp.asarray(v_, dtype=jnp.float32) for v_ in p_[:5]], int(p_[5]), *[float(v_) for v_ in p_[6:9]], int(p_[9]))
        got = {k: float(np.asarray(v_, dtype=np.float64)) for k, v_ in out.items()}
        dev = {"log(step_size)": abs((np.log(got["step_size"]) if got["step_size"] > 0 else -np.inf) - x) / (1 + abs(x))}
        for k in ("error_sum", "log_avg_step_size", "mu"):
            dev[k] = abs(got[k] - want[k]) / (1 + abs(want[k]))
        d = max(dev.values())
        if worst is None or d > worst[0]:
            worst = (d, dict(step_size=ss, error_sum=es, log_avg_step_size=la, mu=mu, acceptance_prob=acc, t=int(t), target=target, gamma=gamma, kappa=kappa, t0=int(t0)),
                     dict(got=got, recurrence=dict(step_size=float(np.exp(x)), **{k: want[k] for k in ("error_sum", "log_avg_step_size", "mu")}), relative_deviation=dev))
    if worst is None:
        return dict(reproduced=False, note="no probe state inside float32's exponent range")
    return dict(reproduced=bool(worst[0] > 1e-3), inputs=worst[1], observed=worst[2],
                note="real da_step vs the Hoffman-Gelman recurrence in float64 (step size compared on the log scale)" if worst[0] > 1e-3 else
                "real da_step agrees with the recurrence at the solver's point and at 72 far-field states")


def ite_leaves(t):
    """the branch values of a (nested) if-then-else term: candidates for generalisation"""
    if z3.is_app_of(t, z3.Z3_OP_ITE):
        return ite_leaves(t.arg(1)) + ite_leaves(t.arg(2))
    return [t]


def sc(v):
    return np.array(v, dtype=object).reshape(())


def da_encs(chk, tag="", static=None):
    """static = (target, gamma, kappa, t0): the constants are plain Python numbers closed over by the traced function (the way the kernels call
    da_step) instead of symbolic arguments"""
    R = {n: z3.Real(n + tag) for n in ("ss", "es", "la", "mu", "acc", "target", "gamma", "kappa")}
    T = {n: z3.Int(n + tag) for n in ("t", "t0")}
    if static is not None:
        tg, ga, ka, t0v = static
        from fractions import Fraction
        f32 = lambda v_: z3.RealVal(str(Fraction(float(np.float32(v_)))))       # the exact binary value the traced float32 constant has
        R.update(target=f32(tg), gamma=f32(ga), kappa=f32(ka))
        T["t0"] = z3.IntVal(int(t0v))
        order = ("ss", "es", "la", "mu", "acc", "t")
        sym = tuple(sc((R | T)[n]) for n in order)
        ex = (1.0, 0.0, 0.0, 0.0, 0.5, 3)
        dom = {"ss" + tag: (0.05, 3), "acc" + tag: (0, 1), "t" + tag: (0, 50)}
        encs = {}
        for w in ("step", "init", "finalize"):
            base = da_fn(w)
            encs[w] = chk.note_enc(Enc(f"da_{w}{tag}", lambda ss, es, la, mu, acc, t, base=base: base(ss, es, la, mu, acc, t, float(tg), float(ga), float(ka), int(t0v)), ex, sym, domain=dom))
        return encs, R, T
    order = ("ss", "es", "la", "mu", "acc", "t", "target", "gamma", "kappa", "t0")
    sym = tuple(sc((R | T)[n]) for n in order)
    ex = (1.0, 0.0, 0.0, 0.0, 0.5, 3, 0.8, 0.05, 0.75, 10)
    dom = {"ss" + tag: (0.05, 3), "gamma" + tag: (0.01, 0.5), "kappa" + tag: (0.3, 1.0), "acc" + tag: (0, 1), "target" + tag: (0.1, 0.9),
           "t" + tag: (0, 50), "t0" + tag: (0, 20)}
    encs = {w: chk.note_enc(Enc(f"da_{w}{tag}", da_fn(w), ex, sym, domain=dom)) for w in ("step", "init", "finalize")}
    return encs, R, T


def kernel_encs(chk, kind, tune=True, late=False):
    """transition (symbolic epoch type through the real lax.cond), start_epoch, end_epoch"""
    rec = {}
    with K.stub_blackjax(rec):
        k = K.make_kernel(kind, late=late) if kind != "mh" else K.make_kernel("mh", tune=tune, late=late)
        ks0 = K.example_kernel_state(kind, k)
        name = kind + ("" if tune else "_notune") + ("_late" if late else "")

        def trans(key, ks, st, etype, tie):
            out = k.transition(key, ks, st, K.epoch_state(etype, tie))
            return dict(ks=out.kernel_state, acc=out.info.acceptance_prob)

        def start(key, ks, st, etype):
            return k.start_epoch(key, ks, st, K.epoch_state(etype, 0))

        def end(key, ks, st, etype):
            return k.end_epoch(key, ks, st, K.epoch_state(etype, 10))

        trans, start, end = K.with_stub(trans, rec), K.with_stub(start, rec), K.with_stub(end, rec)
        key = jax.random.PRNGKey(0)
        sks = symlike(ks0, f"{name}_ks")
        sst = symlike(K.STATE_AB, f"{name}_st")
        et, tie = z3.Int(f"{name}_etype"), z3.Int(f"{name}_tie")
        dom = {f"{name}_ks_step_size": (0.1, 1.5), f"{name}_etype": (0, 4), f"{name}_tie": (0, 9), f"{name}_st_w": (0.5, 2)}
        roots = {"k": key}
        e_tr = chk.note_enc(Enc(f"{name}.transition", trans, (key, ks0, K.STATE_AB, 1, 0), (root_key("k"), sks, sst, sc(et), sc(tie)),
                                key_roots=roots, domain=dom))
        e_st = chk.note_enc(Enc(f"{name}.start_epoch", start, (key, ks0, K.STATE_AB, 1), (root_key("k"), sks, sst, sc(et)), key_roots=roots, domain=dom))
        e_en = chk.note_enc(Enc(f"{name}.end_epoch", end, (key, ks0, K.STATE_AB, 1), (root_key("k"), sks, sst, sc(et)), key_roots=roots, domain=dom))
    return k, sks, et, tie, e_tr, e_st, e_en, rec


def glue_enc(chk, kind):
    """_adaptive_transition with the kernel's own _standard_transition re-bound to a verif_stub: error code, acceptance
    probability and moved flag of the inner transition are arbitrary (in particular error codes != 0, which real
    arithmetic cannot produce through NaN)"""
    from liesel.goose.kernel import TransitionOutcome
    from .. import stubs
    k = K.make_kernel(kind)
    ks0 = K.example_kernel_state(kind, k)
    real_std = k._standard_transition

    def fake_std(key, ks, ms, epoch):
        def real(ss):
            out = real_std(key, ks, ms, epoch)
            return dict(err=jnp.asarray(out.info.error_code, jnp.int32), acc=jnp.asarray(out.info.acceptance_prob, jnp.float32), moved=jnp.asarray(out.info.position_moved))
        o = stubs.stub(f"{kind}_standard_transition", (ks.step_size,), dict(err=jnp.array(0, jnp.int32), acc=jnp.zeros(()), moved=jnp.array(False)), real=real)
        info = jax.eval_shape(lambda: real_std(key, ks, ms, epoch)).info
        info = type(info)(**{**{f: jnp.zeros(v.shape, v.dtype) for f, v in vars(info).items()}, "error_code": o["err"], "acceptance_prob": o["acc"], "position_moved": o["moved"]})
        return TransitionOutcome(info, ks, ms)

    def adaptive(key, ks, st, tie):
        k._standard_transition = fake_std
        try:
            out = k._adaptive_transition(key, ks, st, K.epoch_state(1, tie))
        finally:
            k._standard_transition = real_std
        return dict(ks=out.kernel_state, acc=out.info.acceptance_prob, err=out.info.error_code)
    name = f"{kind}_glue"
    key = jax.random.PRNGKey(0)
    sks = symlike(ks0, f"{name}_ks")
    sst = symlike(K.STATE_AB, f"{name}_st")
    tie = z3.Int(f"{name}_tie")
    dom = {f"{name}_ks_step_size": (0.1, 1.5), f"{name}_tie": (0, 9), f"{name}_st_w": (0.5, 2)}
    enc = chk.note_enc(Enc(f"{name}._adaptive_transition", adaptive, (key, ks0, K.STATE_AB, 0), (root_key("k"), sks, sst, sc(tie)), key_roots={"k": key}, domain=dom))
    return k, sks, tie, enc


def glue_replay(kind, k):
    """confirmation on the un-stubbed kernel: a state whose log-probability is NaN gives error code 90 and reported acceptance
    probability 0; the kernel state after the adaptive transition must be the dual-averaging step with exactly that value"""
    def replay(ob, model, rng):
        ks0 = K.example_kernel_state(kind, k)
        worst = None
        for bad in (True, False):
            for tie in (0, 3):
                st = dict(K.STATE_AB)
                if bad:
                    st["w"] = jnp.array(jnp.nan)
                ks = copy.copy(ks0)
                ks.step_size = jnp.asarray(ks0.step_size, jnp.float32)
                ks.error_sum, ks.log_avg_step_size, ks.mu = jnp.asarray(0.2), jnp.asarray(-0.3), jnp.asarray(0.4)
                ss = float(ks.step_size)
                out = k._adaptive_transition(jax.random.PRNGKey(int(rng.integers(1 << 30))), ks, st, K.epoch_state(1, tie))
                acc, err = float(out.info.acceptance_prob), int(out.info.error_code)
                m = tie + 1.0
                H = 0.2 + (K.DA["da_target_accept"] - acc)
                x = 0.4 - (np.sqrt(m) / K.DA["da_gamma"]) / (m + K.DA["da_t0"]) * H
                eta = m ** (-K.DA["da_kappa"])
                want = dict(step_size=np.exp(x), error_sum=H, log_avg_step_size=eta * x + (1 - eta) * (-0.3), mu=0.4)
                got = {f: float(getattr(out.kernel_state, f)) for f in FIELDS}
                dev = max(abs(got[f] - want[f]) / (1 + abs(want[f])) for f in FIELDS)
                if worst is None or dev > worst[0]:
                    worst = (dev, dict(nan_log_prob=bad, time_in_epoch=tie, step_size=ss), dict(error_code=err, acceptance_prob=acc, got=got, dual_averaging_step=want))
        return dict(reproduced=bool(worst[0] > 1e-3), inputs=worst[1], observed=worst[2],
                    note="un-stubbed kernel: tuning state after an adaptive transition differs from the dual-averaging step with the reported acceptance probability" if worst[0] > 1e-3
                    else "un-stubbed kernel agrees with the dual-averaging step at the tried states (NaN and regular log-probability)")
    return replay


def ksd(ks):
    return {f: cells(getattr(ks, f))[0] for f in FIELDS}


def main():
    chk = Check("C11")
    obs = []
    # ------------------------------------------------------------ da.py itself
    try:
        encs, R, T = da_encs(chk)
    except Exception as ex_:      # da_step could not be traced with its constants as arguments (e.g. it branches on them): constants as Python numbers
        chk.extra.setdefault("notes", []).append(f"da_step not traceable with symbolic constants ({type(ex_).__name__}); static constants used")
        encs, R, T = da_encs(chk, static=(0.8, 0.05, 0.75, 10))
    encs0, R0, T0 = da_encs(chk, tag="_t0", static=(0.3, 0.07, 0.6, 0))        # the corner t0 = 0 (and non-default constants) as the kernels pass them
    chk.functions += ["liesel.goose.da.da_init", "liesel.goose.da.da_step", "liesel.goose.da.da_finalize"]
    pre = [R["gamma"] > 0, T["t"] >= 0, T["t0"] >= 0, R["ss"] > 0]
    ks_in = dict(step_size=R["ss"], error_sum=R["es"], log_avg_step_size=R["la"], mu=R["mu"])

    def step_goal(V):
        want = hg_recurrence(V, ks_in, R["acc"], T["t"], R["target"], R["gamma"], R["kappa"], T["t0"])
        return pre, z3.And(*[cells(V.out[f])[0] == want[f] for f in FIELDS])
    obs.append(Obligation("da_step = Hoffman-Gelman/Stan recurrence", [encs["step"]], step_goal, replay=replay_da_step))
    ks_in0 = dict(step_size=R0["ss"], error_sum=R0["es"], log_avg_step_size=R0["la"], mu=R0["mu"])

    def step_goal0(V):
        want = hg_recurrence(V, ks_in0, R0["acc"], T0["t"], R0["target"], R0["gamma"], R0["kappa"], T0["t0"])
        return [T0["t"] >= 0, R0["ss"] > 0], z3.And(*[cells(V.out[f])[0] == want[f] for f in FIELDS])
    obs.append(Obligation("da_step with the constants (0.3, 0.07, 0.6, t0 = 0) passed as Python numbers = the recurrence with these constants", [encs0["step"]], step_goal0, signature="da_step:t0=0"))

    def init_goal(V):
        return pre, z3.And(cells(V.out["error_sum"])[0] == 0, cells(V.out["log_avg_step_size"])[0] == V.log(R["ss"]),
                           cells(V.out["mu"])[0] == V.log(10 * R["ss"]), cells(V.out["step_size"])[0] == R["ss"])
    obs.append(Obligation("da_init: H=0, log-average = log eps, mu = log(10 eps), eps unchanged", [encs["init"]], init_goal))

    def fin_goal(V):
        return pre, z3.And(cells(V.out["step_size"])[0] == V.exp(R["la"]), cells(V.out["error_sum"])[0] == R["es"],
                           cells(V.out["log_avg_step_size"])[0] == R["la"], cells(V.out["mu"])[0] == R["mu"])
    obs.append(Obligation("da_finalize: eps = exp(log-average)", [encs["finalize"]], fin_goal))

    # monotonicity: same state, higher acceptance => next step size not smaller
    try:
        encs_b, Rb, Tb = da_encs(chk, "_b")
    except Exception:
        encs_b, Rb, Tb = da_encs(chk, "_b", static=(0.8, 0.05, 0.75, 10))

    def mono_goal(Vs):
        V1, V2 = Vs
        same = [Rb[n] == R[n] for n in R if n != "acc"] + [Tb[n] == T[n] for n in T]
        return pre + same + [Rb["acc"] >= R["acc"]], cells(V2.out["step_size"])[0] >= cells(V1.out["step_size"])[0]
    obs.append(Obligation("higher acceptance probability never gives a smaller next step size", [encs["step"], encs_b["step"]],
                          lambda Vs: mono_goal(Vs), schemas=("pos", "inv", "unit", "mono")))

    # ------------------------------------------------------------ the kernels
    kinds = ["rw", "mh", "iwls", "hmc", "nuts"]
    for kind, late in [(kd, False) for kd in kinds] + [(kd, True) for kd in kinds]:
        k, sks, et, tie, e_tr, e_st, e_en, rec = kernel_encs(chk, kind, late=late)
        nm = type(k).__name__ + (" (constants assigned after construction)" if late else "")
        chk.functions += [f"liesel.goose.{type(k).__module__.split('.')[-1]}.{nm}.transition/_adaptive_transition/_standard_transition/start_epoch/end_epoch"]
        kin = ksd(sks)
        rng_ok = [et >= 0, et <= 4, tie >= 0, kin["step_size"] > 0]
        other = [f for f in sks.__dict__ if f not in FIELDS]

        def frozen(V, kin=kin, sks=sks, other=other, et=et, rng_ok=rng_ok):
            o = V.out["ks"]
            return rng_ok + [z3.Or(et == 0, et == 3, et == 4)], z3.And(*[cells(getattr(o, f))[0] == kin[f] for f in FIELDS],
                                                                    *[all_eq(getattr(o, f), getattr(sks, f)) for f in other])
        obs.append(Obligation(f"{nm}: tuning state unchanged by a transition outside adaptation epochs", [e_tr], frozen, signature=f"{nm}:frozen"))

        def adapts(V, kin=kin, sks=sks, other=other, et=et, tie=tie, k=k, rng_ok=rng_ok):
            o = V.out["ks"]
            acc = cells(V.out["acc"])[0]
            want = hg_recurrence(V, kin, acc, tie, V.c(np.float32(K.DA["da_target_accept"])), V.c(np.float32(K.DA["da_gamma"])), V.c(np.float32(K.DA["da_kappa"])), K.DA["da_t0"])
            return rng_ok + [z3.Or(et == 1, et == 2)], z3.And(*[cells(getattr(o, f))[0] == want[f] for f in FIELDS],
                                                          *[all_eq(getattr(o, f), getattr(sks, f)) for f in other]), ite_leaves(acc)
        obs.append(Obligation(f"{nm}: in adaptation epochs the transition applies one dual-averaging step with the kernel's constants and the reported acceptance probability",
                              [e_tr], adapts, signature=f"{nm}:adapts"))

        rng_se = [et >= 0, et <= 4, kin["step_size"] > 0]        # start_epoch / end_epoch have no within-epoch time argument

        def start_goal(V, kin=kin, sks=sks, other=other, rng_ok=rng_se):
            o = V.out
            return rng_ok, z3.And(cells(o.error_sum)[0] == 0, cells(o.log_avg_step_size)[0] == V.log(kin["step_size"]),
                                  cells(o.mu)[0] == V.log(10 * kin["step_size"]), cells(o.step_size)[0] == kin["step_size"],
                                  *[all_eq(getattr(o, f), getattr(sks, f)) for f in other])
        obs.append(Obligation(f"{nm}: start_epoch restarts dual averaging from the current step size", [e_st], start_goal, signature=f"{nm}:start"))

        def end_goal(V, kin=kin, sks=sks, other=other, rng_ok=rng_se):
            o = V.out
            return rng_ok, z3.And(cells(o.step_size)[0] == V.exp(kin["log_avg_step_size"]), *[all_eq(getattr(o, f), getattr(sks, f)) for f in other])
        obs.append(Obligation(f"{nm}: end_epoch makes the averaged step size the kernel's step size", [e_en], end_goal, signature=f"{nm}:end"))
    # error-coded inner transitions: the dual-averaging step must use the reported acceptance probability whatever the error code
    for kind in ("rw", "mh", "iwls"):
        k, sks, tie, enc = glue_enc(chk, kind)
        kin = ksd(sks)
        other = [f for f in sks.__dict__ if f not in FIELDS]

        def glue_goal(V, kin=kin, sks=sks, other=other, tie=tie, k=k):
            o = V.out["ks"]
            acc = cells(V.out["acc"])[0]
            want = hg_recurrence(V, kin, acc, tie, V.c(np.float32(K.DA["da_target_accept"])), V.c(np.float32(K.DA["da_gamma"])), V.c(np.float32(K.DA["da_kappa"])), K.DA["da_t0"])
            return [tie >= 0, kin["step_size"] > 0], z3.And(*[cells(getattr(o, f))[0] == want[f] for f in FIELDS], *[all_eq(getattr(o, f), getattr(sks, f)) for f in other])
        obs.append(Obligation(f"{type(k).__name__}: adaptive transition = inner transition (arbitrary error code / acceptance probability / moved flag) followed by one dual-averaging step with the reported acceptance probability",
                              [enc], glue_goal, signature=f"{type(k).__name__}:adapts-any-error-code", replay=glue_replay(kind, k)))
    if chk.tier != "quick" or True:
        # MH kernel with tuning off: never adapts
        k, sks, et, tie, e_tr, e_st, e_en, rec = kernel_encs(chk, "mh", tune=False)
        kin = ksd(sks)

        def never(V, kin=kin, et=et, tie=tie):
            o = V.out["ks"]
            return [et >= 0, et <= 4, tie >= 0, kin["step_size"] > 0], z3.And(*[cells(getattr(o, f))[0] == kin[f] for f in FIELDS])
        obs.append(Obligation("MHKernel(da_tune_step_size=False): transitions never change the tuning state", [e_tr], never, signature="MHKernel:notune"))
        chk.functions += ["liesel.goose.mh_kernel.MHKernel.transition (tuning off)"]

    # init_state: the configured initial step size (and inverse mass matrix: identity / ones by default, the user's otherwise) is where adaptation starts
    # (concrete observation on the real kernels; the traced obligations above start from an arbitrary state)
    import liesel.goose as gs
    for kind in kinds:
        for given in ((False, True) if kind in ("hmc", "nuts") else (False,)):
            for diag in ((True, False) if kind in ("hmc", "nuts") else (True,)):
                def init_facts(kind=kind, given=given, diag=diag):
                    kw = {}
                    if kind in ("hmc", "nuts"):
                        kw["mm_diag"] = diag
                        if given:
                            kw["initial_inverse_mass_matrix"] = (jnp.array([0.5, 2.0, 3.0]) if diag else jnp.diag(jnp.array([0.5, 2.0, 3.0])) + 0.1)
                    k = K.make_kernel(kind, **kw)
                    k.initial_step_size = 0.37 if kind not in ("hmc", "nuts") else k.initial_step_size
                    ks = k.init_state(jax.random.PRNGKey(1), K.STATE_AB)
                    want_ss = 0.37 if kind not in ("hmc", "nuts") else 0.1
                    pr = []
                    if abs(float(ks.step_size) - want_ss) > 1e-7:
                        pr.append(f"initial step size {float(ks.step_size)} instead of the configured {want_ss}")
                    if kind in ("hmc", "nuts"):
                        want = kw.get("initial_inverse_mass_matrix", jnp.ones(3) if diag else jnp.eye(3))
                        if np.shape(ks.inverse_mass_matrix) != np.shape(want) or not np.allclose(np.asarray(ks.inverse_mass_matrix), np.asarray(want)):
                            pr.append(f"initial inverse mass matrix {np.asarray(ks.inverse_mass_matrix).tolist()} instead of {np.asarray(want).tolist()}")
                    return pr
                nm = f"{kind}:init_state:{'given' if given else 'default'}-imm:{'diag' if diag else 'dense'}"
                pr = chk.guarded(nm, f"[{nm}] init_state", init_facts)
                if pr:
                    chk.violation(nm, f"[{nm}] " + "; ".join(pr), dict(reproduced=True, observed=dict(problems=pr), note="concrete observation of the real kernel's init_state"))
    # translator validation
    for e in chk.encs:
        chk.validated_points += e.validate(chk.rng, npoints=1)
    chk.run(obs)
    chk.bounds += ["one transition / one da step from an arbitrary kernel state (real-valued step size > 0, error sum, log-average, mu)",
                   "epoch type symbolic in 0..4 through the real lax.cond; time_in_epoch symbolic >= 0",
                   "toy Dict model over a:(2,), b:(); kernels built with non-default dual-averaging constants " + str(K.DA)]
    chk.enumerated += [f"kernels: {kinds} (+ MH with tuning off)"]
    chk.assume("real arithmetic (rounding outside the claim); exp/log/pow/sqrt uninterpreted with positivity, inverse-pair, unit and (for monotonicity) monotonicity axioms",
               "blackjax's hmc/nuts kernel replaced by a verif_stub returning an arbitrary position and acceptance rate",
               "gamma > 0, t >= 0, t0 >= 0, step size > 0")
    return chk.finish(technique=TECH)
