"""C08 Recorded chains hold exactly the per-iteration states, thinned as configured (Engine A, CrossHair)."""
from ..chrun import Cond, run_conditions
from ..harness import Check
from .c07 import plan

TECH = ("CrossHair symbolic execution (z3 per path) of the real Engine + EpochChainManager/ListEpochChain + SamplingResults accessors driving recording kernels whose stored cells identify the "
        "iteration that produced them (JAX/numpy replaced by a pure-Python stand-in), of ListEpochChain.append with arbitrary chunk-size sequences, and of EngineBuilder.build's tracked-key selection")


def main():
    chk = Check("C08")
    conds = []
    pl = plan(chk.tier)
    if chk.tier == "quick":
        pl = pl[:6]
    for qi, (s, nh, store, up) in enumerate(pl):
        qg = qi % 3
        ts = ",".join(map(str, s))
        conds.append(Cond("vf.ch.h_engine", "check_chains_q" if chk.tier == "quick" else "check_chains",
                          f"stored chains for epoch types INITIAL,{ts} (store_kernel_states={store}, {up}/3 epochs up-front): index 0 = initial values; per epoch exactly the states after within-epoch "
                          "iterations k, 2k, ...; each stored value written after all kernels of its iteration; one transition info (and kernel state if requested) per transition, unthinned; "
                          "posterior accessor = posterior-epoch part", timeout_s=600 if chk.tier == "quick" else 1200,
                          env={"TYPES": ts, "NK": "2", "NH": nh, "STORE": str(store), "UPFRONT": str(up), "QG": str(qg), "MINI": str(qi % 2),
                               "TRACK": {"10": "p_k1,shared", "01": "p_k0,shared"}.get(nh, "") if qi % 2 == 0 else ""}, signature=f"chains:{ts}"))
    s, nh, store, up = pl[0]
    conds.append(Cond("vf.ch.h_engine", "check_chains_chunks", f"stored chains when epochs are sampled in several JIT chunks of 2 or 3 iterations (durations chunk*q, q <= 2, posterior thinning 1..2; epoch types INITIAL,{','.join(map(str, s))})",
                      timeout_s=900, env={"TYPES": ",".join(map(str, s)), "NK": "2", "NH": nh, "STORE": str(store), "UPFRONT": str(up), "QG": "0", "MINI": "0", "TRACK": ""}, signature="chains:multi-chunk"))
    conds.append(Cond("vf.ch.h_chain", "check_append" if chk.tier == "quick" else "check_append_wide",
                      "ListEpochChain.append: for every sequence of chunk sizes and every thinning the kept global indices are {g : (g+1) mod thinning = 0} (chunking invariance)", 600, signature="append"))
    conds.append(Cond("vf.ch.h_chain", "check_manager", "EpochChainManager: per-epoch chains, combine_all in epoch order, posterior filter", 300, signature="manager"))
    conds.append(Cond("vf.ch.h_builder", "check_tracked", "EngineBuilder.build: tracked keys = kernel keys + positions_included without positions_excluded (excluded overrides included)", 300, signature="tracked-keys"))
    run_conditions(chk, conds)
    chk.functions += ["liesel.goose.chain.ListChain/ListEpochChain.append/get", "liesel.goose.chain.EpochChainManager.advance_epoch/append/combine_all/combine_filtered", "liesel.goose.pytree.slice_leaves/concatenate_leaves",
                      "liesel.goose.engine.Engine._handle_inital_values_epoch/_sample_for_duration/_sample_many/get_results", "liesel.goose.engine.SamplingResults.get_samples/get_posterior_samples",
                      "liesel.goose.builder.EngineBuilder.build (tracked key selection)"]
    chk.bounds += ["engine runs: 3 epochs, symbolic durations <= 2,2,3 (thorough 3,3,4), thinning, chunk", "append: <= 3 chunks of <= 3 states, thinning <= 4 (thorough: 4 chunks of 4, thinning 6), all symbolic",
                   "tracked keys: every include / exclude subset of four candidate keys (symbolic masks)"]
    chk.enumerated += [f"epoch types INITIAL,{','.join(map(str, s))} store={st} upfront={up}" for s, nh, st, up in pl]
    chk.assume("explicit tracked keys that leave out the key of a history-requesting kernel in some configurations (exactly the requested keys must be stored)", "minimize_transition_infos on in every second configuration (the stored info is the kernel info's minimize())", "quantity generators (0-2 recording generators, varied over the configurations) are part of the runs: their keys, call counts and stored outputs are checked", "fake environment contracts as in C07; shapes of tracked quantities are opaque cells (one per time index)", "an empty tracked selection (engine falls back to kernel keys) is unsupported input, not claimed",
               "chunking invariance is shown for kernels that ignore their key (recording kernels)")
    return chk.finish(technique=TECH)
