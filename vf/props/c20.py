"""C20 optim_flat: documented stopping rule, restored optimum, fresh minibatches (Engine B)."""
import ast
import inspect
import sys
import textwrap

import jax
import jax.numpy as jnp
import numpy as np
import z3

from ..harness import Check, Enc, Inconclusive, Obligation, all_eq, cells, symlike
from ..jx2smt import Interp, KeyTerm, KeyWord, Poison, root_key, sym_array

TECH = ("Stopper.stop_early/stop_now/which_best_in_recent_history traced and interpreted over z3 Float32 terms (documented pseudo-code as IEEE oracle); the statements after the "
        "while_loop of optim_flat sliced from the current source with ast, traced and interpreted over z3 reals; the while-loop body captured, traced twice in sequence and "
        "interpreted with poison semantics, PRNG key terms compared as terms of a z3 algebraic datatype; z3 decides each negated obligation")


def sc(v):
    return np.array(v, dtype=object).reshape(())


# ------------------------------------------------------------------ Stopper (fp32)
def stopper_reuse_obligation(chk, N):
    """one Stopper object used again after its patience / tolerance attributes were re-assigned (optim_flat itself re-assigns `patience` on the
    stopper it is given): the rule follows the attributes as they are at the time of the call"""
    from liesel.goose.optim import Stopper
    F = z3.Float32()

    def f(i, hist):
        st = Stopper(max_iter=N, patience=1, atol=0.0, rtol=0.0)
        first = st.stop_early(i, hist)
        st.patience = 2
        st.atol = 0.5
        again = st.stop_early(i, hist)
        fresh = Stopper(max_iter=N, patience=2, atol=0.5, rtol=0.0).stop_early(i, hist)
        return dict(first=first, again=again, fresh=fresh)
    i = z3.Int(f"ru_i_{N}")
    h = sym_array(f"ru_h_{N}", (N,), F)
    enc = chk.note_enc(Enc(f"Stopper(max_iter={N}) used twice with re-assigned attributes", f, (2, jnp.zeros(N)), (sc(i), h), mode="fp32"))

    def goal(V):
        return [z3.Not(z3.fpIsNaN(x)) for x in h] + [i >= 0, i < N], cells(V.out["again"])[0] == cells(V.out["fresh"])[0]

    def replay(ob, model, rng):
        for hv in (np.array([5, 4, 3.8, 3.7, 3.65, 3.6][:N], dtype=np.float32), np.array([1, 0.9, 0.95, 0.9, 0.9, 0.9][:N], dtype=np.float32)):
            for iv in range(N):
                out = f(iv, jnp.asarray(hv))
                if bool(out["again"]) != bool(out["fresh"]):
                    return dict(reproduced=True, inputs=dict(i=iv, history=hv.tolist(), first=dict(patience=1, atol=0.0), then=dict(patience=2, atol=0.5)),
                                observed=dict(reused_stopper=bool(out["again"]), fresh_stopper=bool(out["fresh"])), note="a re-used Stopper ignores its re-assigned patience / atol")
        return dict(reproduced=False, note="re-used and fresh stoppers agree on two histories x all iterations")
    return [Obligation(f"Stopper (N={N}): after re-assigning patience and atol on the same object, stop_early decides like a fresh Stopper with those settings", [enc], goal,
                       signature="stopper:reuse", replay=replay, timeout_s=300)]


def stopper_static_index(chk, N, P):
    """the iteration index as a plain Python int (a hand-written training loop, or optim_flat with jit disabled): `while stopper.continue_(i, h)`
    must stop exactly when stop_now says so -- the truth value of whatever continue_ returns is what the loop sees"""
    from liesel.goose.optim import Stopper
    F = z3.Float32()
    obs = []

    def truth(c):
        if isinstance(c, (bool, int, np.bool_, np.integer)):
            return z3.BoolVal(bool(c))
        if z3.is_bool(c):
            return c
        if z3.is_int(c) or z3.is_bv(c):
            return c != 0
        raise Inconclusive(f"continue_/stop_now returned a value of sort {c.sort()}")
    for iv in range(N):
        def f(hist, iv=iv):
            st = Stopper(max_iter=N, patience=P, atol=0.25, rtol=0.0)
            return dict(now=st.stop_now(iv, hist), cont=st.continue_(iv, hist), early=st.stop_early(iv, hist))
        h = sym_array(f"si_h_{N}{P}{iv}", (N,), F)
        enc = chk.note_enc(Enc(f"Stopper(max_iter={N}, patience={P}) at the Python-int index {iv}", f, (jnp.zeros(N),), (h,), mode="fp32"))

        def goal(V, iv=iv, h=h):
            now, cont, early = (truth(cells(V.out[k])[0]) for k in ("now", "cont", "early"))
            want_now = z3.Or(early, z3.BoolVal(iv >= N - 1))
            return [z3.Not(z3.fpIsNaN(x)) for x in h], z3.And(cont == z3.Not(now), now == want_now)

        def replay(ob, model, rng, f=f, iv=iv):
            for hv in (np.linspace(3, 1, N), np.ones(N), np.array(([2.0, 1.0, 1.5] * N)[:N])):
                out = f(jnp.asarray(hv, dtype=jnp.float32))
                now, cont, early = bool(out["now"]), bool(out["cont"]), bool(out["early"])
                if cont == now or now != (early or iv >= N - 1):
                    return dict(reproduced=True, inputs=dict(i=iv, index_type="int", loss_history=[float(t) for t in hv], patience=P, max_iter=N),
                                observed=dict(stop_now=repr(out["now"]), continue_=repr(out["cont"]), stop_early=early), note="truth values as a Python `while` loop sees them")
            return dict(reproduced=False, note="continue_ is the negation of stop_now (as truth values) on three histories")
        obs.append(Obligation(f"Stopper(max_iter={N}, patience={P}), Python-int index {iv}: bool(continue_) = not bool(stop_now) and stop_now = stop_early or i >= max_iter - 1", [enc], goal,
                              signature=f"stopper:static-index:{P}", replay=replay, timeout_s=120))
    return obs


def stopper_obligations(chk, N, P):
    from liesel.goose.optim import Stopper
    F = z3.Float32()

    def f(i, hist, atol, rtol):
        st = Stopper(max_iter=N, patience=P, atol=atol, rtol=rtol)
        return dict(early=st.stop_early(i, hist), now=st.stop_now(i, hist), cont=st.continue_(i, hist))

    def fb(i, hist):
        st = Stopper(max_iter=N, patience=P)
        return st.which_best_in_recent_history(i, hist)
    i = z3.Int(f"i_{N}{P}")
    h = sym_array(f"h_{N}{P}", (N,), F)
    atol, rtol = z3.FP(f"atol_{N}{P}", F), z3.FP(f"rtol_{N}{P}", F)
    enc = chk.note_enc(Enc(f"Stopper(max_iter={N}, patience={P})", f, (2, jnp.zeros(N), 0.1, 0.0), (sc(i), h, sc(atol), sc(rtol)), mode="fp32"))
    encb = chk.note_enc(Enc(f"Stopper(patience={P}).which_best_in_recent_history", fb, (2, jnp.zeros(N)), (sc(i), h), mode="fp32"))
    R = z3.RNE()
    nonan = [z3.Not(z3.fpIsNaN(x)) for x in list(h) + [atol, rtol]]

    def window_rule(iv):
        w = [h[iv - P + 1 + j] for j in range(P)]
        best = w[0]
        for x in w[1:]:
            best = z3.If(z3.fpLT(x, best), x, best)
        diff = z3.fpSub(R, w[0], best)
        rel = z3.fpDiv(R, diff, z3.fpAbs(best))
        return z3.Or(z3.fpLEQ(diff, atol), z3.fpLEQ(rel, rtol))

    def replay_stop(ob, model, rng):
        from ..zeval import model_value
        iv = int(model_value(model, i, 0))
        hv = np.array([model_value(model, x, np.float32(0)) for x in h], dtype=np.float32)
        a, r_ = np.float32(model_value(model, atol, np.float32(0))), np.float32(model_value(model, rtol, np.float32(0)))
        out = f(iv, jnp.asarray(hv), jnp.float32(a), jnp.float32(r_))
        got_early, got_now = bool(out["early"]), bool(out["now"])
        bad = []
        with np.errstate(all="ignore"):
            if iv > P:
                w = hv[iv - P + 1: iv + 1]
                best = np.float32(np.min(w))
                diff = np.float32(w[0] - best)
                want = bool(diff <= a) or bool(np.float32(diff / np.abs(best)) <= r_)
                if got_early != want:
                    bad.append(f"stop_early({iv}) = {got_early}, documented rule gives {want}")
                if got_now != (want or iv >= N - 1):
                    bad.append(f"stop_now({iv}) = {got_now}, expected {want or iv >= N - 1}")
            elif iv < P - 1 and got_early:
                bad.append(f"stop_early({iv}) = True before a full patience window of {P}")
            if bool(out["cont"]) == got_now:
                bad.append("continue_ is not the negation of stop_now")
        if bad:
            return dict(reproduced=True, inputs=dict(i=iv, loss_history=[float(t) for t in hv], atol=float(a), rtol=float(r_), patience=P, max_iter=N),
                        observed=dict(stop_early=got_early, stop_now=got_now), note="; ".join(bad))
        return dict(reproduced=False, note="real Stopper agrees with the documented rule at the model's inputs")
    obs = []
    for iv in range(N):
        o = {k: cells(v)[0] for k, v in enc.out.items()}
        if iv > P:
            obs.append(Obligation(f"Stopper(p={P}): stop_early({iv}) <=> oldest loss of the patience window within atol or rtol of the best one",
                                  [enc], (lambda V, iv=iv: (nonan + [i == iv], cells(V.out["early"])[0] == window_rule(iv))), replay=replay_stop, signature=f"stopper:p{P}:early", timeout_s=300))
        elif iv < P - 1:
            obs.append(Obligation(f"Stopper(p={P}): no early stop at i={iv} (no full patience window yet)",
                                  [enc], (lambda V, iv=iv: (nonan + [i == iv], z3.Not(cells(V.out["early"])[0]))), replay=replay_stop, signature=f"stopper:p{P}:too-early", timeout_s=300))
        obs.append(Obligation(f"Stopper(p={P}): stop_now({iv}) <=> stop_early or iteration limit reached; continue_ is its negation",
                              [enc], (lambda V, iv=iv: (nonan + [i == iv], z3.And(cells(V.out["now"])[0] == z3.Or(cells(V.out["early"])[0], z3.BoolVal(iv >= N - 1)),
                                                                                 cells(V.out["cont"])[0] == z3.Not(cells(V.out["now"])[0])))), replay=replay_stop, signature=f"stopper:p{P}:now", timeout_s=300))

    def replay_best(ob, model, rng):
        from ..zeval import model_value
        iv = int(model_value(model, i, P))
        hv = np.array([model_value(model, x, np.float32(0)) for x in h], dtype=np.float32)
        got = int(fb(iv, jnp.asarray(hv)))
        w = hv[iv - P + 1: iv + 1]
        want = iv - P + 1 + int(np.argmin(w))
        if got != want:
            return dict(reproduced=True, inputs=dict(i=iv, loss_history=[float(t) for t in hv], patience=P), observed=dict(best=got), note=f"expected first minimiser of the window: {want}")
        return dict(reproduced=False, note="real Stopper returns the first minimiser of the window")
    for iv in range(P - 1, N):
        def gb(V, iv=iv):
            b = cells(V.out)[0]
            w = [(iv - P + 1 + j, h[iv - P + 1 + j]) for j in range(P)]
            inwin = z3.And(b >= iv - P + 1, b <= iv)
            minimal = z3.And(*[z3.Implies(b == k, z3.And(*[z3.fpLEQ(x, y) for (_, y) in w], *[z3.fpLT(x, y) for (k2, y) in w if k2 < k])) for (k, x) in w])
            return nonan + [i == iv], z3.And(inwin, minimal)
        obs.append(Obligation(f"Stopper(p={P}): best index at i={iv} lies in the patience window, minimises the loss there, first on ties", [encb], gb, replay=replay_best,
                              signature=f"stopper:p{P}:best", timeout_s=300))
    return obs


# ------------------------------------------------------------------ optim_flat: capture + slices
class Capture(Exception):
    def __init__(self, cond, body, init):
        self.cond, self.body, self.init = cond, body, init


def small_models(n=5, seed=0):
    import liesel.model as lsl
    import tensorflow_probability.substrates.jax.distributions as tfd
    key = jax.random.PRNGKey(42 + seed)
    x = jax.random.normal(key, (n,))
    y = 0.5 + 1.2 * x
    coef = lsl.param(jnp.zeros(2), name="coef")
    xvar = lsl.obs(jnp.c_[jnp.ones_like(x), x], name="x")
    mu = lsl.Var(lsl.Calc(jnp.dot, xvar, coef), name="mu")
    yvar = lsl.obs(y, lsl.Dist(tfd.Normal, loc=mu, scale=1.0), name="y")
    return lsl.GraphBuilder().add(yvar).build_model()


def two_param_model(n=5):
    import liesel.model as lsl
    import tensorflow_probability.substrates.jax.distributions as tfd
    x = jax.random.normal(jax.random.PRNGKey(7), (n,))
    slope = lsl.param(0.0, name="slope")
    intercept = lsl.param(0.0, name="intercept")
    xvar = lsl.obs(x, name="x")
    mu = lsl.Var(lsl.Calc(lambda a, b, xx: a + b * xx, intercept, slope, xvar), name="mu")
    yvar = lsl.obs(0.5 + 1.2 * x, lsl.Dist(tfd.Normal, loc=mu, scale=1.0), name="y")
    return lsl.GraphBuilder().add(yvar).build_model()


def capture(model_validation, max_iter, patience, batch_size=None, model=None, params=("coef",), **kw):
    """run optim_flat's pre-loop part for real; return its frame locals and (cond, body, init)"""
    import liesel.goose as gs
    import liesel.goose.optim as optim
    real_while = jax.lax.while_loop

    def fake_while(cond_fun, body_fun, init_val):
        raise Capture(cond_fun, body_fun, init_val)
    stopper = gs.Stopper(max_iter=max_iter, patience=patience)
    model = model if model is not None else small_models()
    mval = model_validation(model) if model_validation else None
    optim.jax.lax.while_loop = fake_while
    try:
        gs.optim_flat(model, params=list(params), stopper=stopper, model_validation=mval, progress_bar=False,
                      batch_size=batch_size, batch_seed=1, **kw)
    except Capture as c:
        tb = sys.exc_info()[2]
        while tb.tb_frame.f_code.co_name != "optim_flat":
            tb = tb.tb_next
        loc = dict(tb.tb_frame.f_locals)
        return loc, c
    finally:
        optim.jax.lax.while_loop = real_while
    raise RuntimeError("optim_flat did not reach jax.lax.while_loop")


def post_slice(loc):
    """function of optim_flat's locals built from the statements after `val = jax.lax.while_loop(...)`"""
    import liesel.goose.optim as optim
    src = textwrap.dedent(inspect.getsource(optim.optim_flat))
    fn = ast.parse(src).body[0]
    idx = [k for k, st in enumerate(fn.body) if isinstance(st, ast.Assign) and "while_loop" in ast.unparse(st.value)]
    if len(idx) != 1:
        raise RuntimeError("slice anchor (the while_loop assignment) not found in optim_flat")
    post = fn.body[idx[0] + 1:]
    names = sorted({n.id for st in post for n in ast.walk(st) if isinstance(n, ast.Name) and isinstance(n.ctx, ast.Load)} & (set(loc) | {"val"}))
    mod = ast.Module(body=[ast.FunctionDef(name="_post", args=ast.arguments(posonlyargs=[], args=[ast.arg(a) for a in names], kwonlyargs=[], kw_defaults=[], defaults=[]),
                                           body=post, decorator_list=[], type_params=[])], type_ignores=[])
    ast.fix_missing_locations(mod)
    ns = dict(vars(optim))
    exec(compile(mod, "<optim_flat post-loop slice>", "exec"), ns)
    return ns["_post"], names, len(post)


def postloop_obligations(chk, with_validation, prune, restore, MAXIT, PAT, WI, auto_off=False):
    import copy
    tag = f"val={'yes' if with_validation else 'none'},prune={prune},restore={restore},iter={WI}" + (",model with auto_update=False" if auto_off else "")
    mdl = None
    if auto_off:
        # the user's model defers updates (public setting): the returned model state still has to be coherent with the returned position
        mdl = small_models()
        mdl.auto_update = False
    loc, cap = capture((lambda m: small_models(seed=1)) if with_validation else None, MAXIT, PAT, model=mdl, prune_history=prune, restore_best_position=restore)
    post, names, nst = post_slice(loc)
    stopper_obj = loc["stopper"]
    patience_in_loop = stopper_obj.patience

    def run(lv, lt, pos_hist, cur_pos):
        env = dict(loc)
        env["stopper"] = copy.copy(stopper_obj)
        env["stopper"].patience = patience_in_loop       # as the loop leaves it
        val = dict(loc["init_val"])
        val["while_i"] = WI
        val["history"] = {"loss_train": lt, "loss_validation": lv, "position": {"coef": pos_hist}}
        val["position"] = {"coef": cur_pos}
        env["val"] = val
        r = post(**{a: env[a] for a in names})
        return dict(pos=r.position["coef"], ibest=jnp.asarray(r.iteration_best), hv=r.history["loss_validation"], ht=r.history["loss_train"], hp=r.history["position"]["coef"],
                    sv=r.model_state["coef_value"].value, mu=r.model_state["mu_value"].value, it=jnp.asarray(r.iteration))
    pre = "".join(ch for ch in tag if ch.isalnum())
    lv, lt = sym_array(f"lv_{pre}", (MAXIT,)), sym_array(f"lt_{pre}", (MAXIT,))
    ph, cp = sym_array(f"ph_{pre}", (MAXIT, 2)), sym_array(f"cp_{pre}", (2,))
    enc = chk.note_enc(Enc(f"optim_flat post-loop slice [{tag}] ({nst} statements)", run, (jnp.arange(MAXIT) * 0.1, jnp.arange(MAXIT) * 0.2, jnp.zeros((MAXIT, 2)) + 0.3, jnp.zeros(2)),
                           (lv, lt, ph, cp)))
    X = np.asarray(loc["model_train"].vars["x"].value)
    obs = []
    win = list(range(WI - PAT + 1, WI + 1))

    def g_best(V):
        ib = cells(V.out["ibest"])[0]
        inw = z3.And(ib >= win[0], ib <= win[-1])
        mini = z3.And(*[z3.Implies(ib == r_, z3.And(*[lv[r_] <= lv[q] for q in win])) for r_ in win])
        return [], z3.And(inw, mini, cells(V.out["it"])[0] == WI)
    obs.append(Obligation(f"optim_flat[{tag}]: reported best iteration lies in the final patience window and minimises the validation loss there", [enc], g_best,
                          signature=f"optim:best-window:val={'yes' if with_validation else 'none'}"))

    def g_pos(V):
        ib = cells(V.out["ibest"])[0]
        pos = V.out["pos"]
        if restore:
            g = z3.And(*[z3.Implies(ib == r_, z3.And(pos[0] == ph[r_, 0], pos[1] == ph[r_, 1])) for r_ in range(MAXIT)], ib >= 0, ib < MAXIT)
        else:
            g = z3.And(pos[0] == cp[0], pos[1] == cp[1])
        return [], g
    obs.append(Obligation(f"optim_flat[{tag}]: returned position = " + ("recorded position at the reported best iteration" if restore else "last position"), [enc], g_pos,
                          signature=f"optim:position:restore={restore}"))

    def g_state(V):
        pos, sv, mu = V.out["pos"], V.out["sv"], V.out["mu"]
        return [], z3.And(sv[0] == pos[0], sv[1] == pos[1], *[mu[k] == V.c(X[k, 0]) * pos[0] + V.c(X[k, 1]) * pos[1] for k in range(X.shape[0])])
    obs.append(Obligation(f"optim_flat[{tag}]: returned model state is consistent with the returned position (parameter node and derived node)", [enc], g_state, signature="optim:state"))
    # histories: documented length (pruned) or NaN padding (not pruned); kept entries untouched
    from ..jx2smt import NonFinite
    hv, ht, hp = enc.out["hv"], enc.out["ht"], enc.out["hp"]
    want_len = WI + 1 if prune else MAXIT
    problems = []
    for nm, arr, src_ in (("loss_validation", hv, lv), ("loss_train", ht, lt), ("position", hp, ph)):
        if arr.shape[0] != want_len:
            problems.append(f"{nm} history has length {arr.shape[0]}, documented {want_len}")
            continue
        for r_ in range(arr.shape[0]):
            row = cells(arr[r_])
            srow = cells(src_[r_])
            if r_ <= WI:
                if not all(z3.is_expr(a) and a.eq(b) for a, b in zip(row, srow)):
                    problems.append(f"{nm} history entry {r_} was altered")
            else:
                if not all(isinstance(a, NonFinite) and np.isnan(a.x) for a in row):
                    problems.append(f"{nm} history entry {r_} beyond the last iteration is not NaN")
    if problems:
        chk.violation(f"optim:history:prune={prune}", f"optim_flat[{tag}]: " + "; ".join(problems[:3]), dict(reproduced=True, note="read off the interpreted post-loop slice (syntactic: entries are moved, never computed)",
                                                                                                            observed=dict(problems=problems[:6])))
    chk.extra.setdefault("history_checks", []).append(dict(scenario=tag, rows_checked=int(hv.shape[0] + ht.shape[0] + hp.shape[0])))
    return obs, enc


def two_param_obligation(chk, MAXIT, PAT, WI):
    """two optimised parameters listed in non-alphabetical order: the restored position pairs every NAME with its own recorded history"""
    import copy
    loc, cap = capture(None, MAXIT, PAT, model=two_param_model(), params=("slope", "intercept"), restore_best_position=True)
    post, names, nst = post_slice(loc)
    stopper_obj = loc["stopper"]
    pat = stopper_obj.patience

    def run(lt, hs, hi, cs, ci):
        env = dict(loc)
        env["stopper"] = copy.copy(stopper_obj)
        env["stopper"].patience = pat
        val = dict(loc["init_val"])
        val["while_i"] = WI
        # what lax.while_loop hands back: dict pytrees rebuilt with their keys in sorted order
        val["history"] = jax.tree_util.tree_map(lambda a: a, {"loss_train": lt, "loss_validation": lt, "position": {"slope": hs, "intercept": hi}})
        val["position"] = jax.tree_util.tree_map(lambda a: a, {"slope": cs, "intercept": ci})
        env["val"] = val
        r = post(**{a: env[a] for a in names})
        return dict(slope=r.position["slope"], intercept=r.position["intercept"], ibest=jnp.asarray(r.iteration_best),
                    s_state=r.model_state["slope_value"].value, i_state=r.model_state["intercept_value"].value)
    lt, hs, hi = sym_array("tp_lt", (MAXIT,)), sym_array("tp_hs", (MAXIT,)), sym_array("tp_hi", (MAXIT,))
    cs, ci = z3.Real("tp_cs"), z3.Real("tp_ci")
    sc = lambda v: np.array(v, dtype=object).reshape(())
    enc = chk.note_enc(Enc(f"optim_flat post-loop slice [params=['slope','intercept'], iter={WI}]", run,
                           (jnp.arange(MAXIT) * 0.2, jnp.arange(MAXIT) * 0.1, jnp.arange(MAXIT) * -0.3, 0.4, 0.6), (lt, hs, hi, sc(cs), sc(ci))))

    def goal(V):
        ib = cells(V.out["ibest"])[0]
        o = {k: cells(V.out[k])[0] for k in ("slope", "intercept", "s_state", "i_state")}
        return [], z3.And(ib >= 0, ib < MAXIT, *[z3.Implies(ib == r_, z3.And(o["slope"] == hs[r_], o["intercept"] == hi[r_])) for r_ in range(MAXIT)],
                          o["s_state"] == o["slope"], o["i_state"] == o["intercept"])
    return [Obligation("optim_flat[params=['slope','intercept'] (not alphabetical), restore]: every parameter gets ITS OWN recorded value at the best iteration, and the model state agrees", [enc], goal,
                       signature="optim:position:two-params")], enc


# ------------------------------------------------------------------ loop body: fresh minibatches
def key_datatype():
    K = z3.Datatype("Key")
    K.declare("root", ("name", z3.StringSort()))
    K.declare("split", ("parent", K), ("n", z3.IntSort()), ("idx", z3.IntSort()))
    K.declare("fold_in", ("fparent", K), ("data", z3.StringSort()))
    K.declare("seed", ("sval", z3.StringSort()))
    K.declare("raw", ("w0", z3.StringSort()), ("w1", z3.StringSort()))
    return K.create()


def key_z3(K, term):
    kind = term[0]
    if kind == "root":
        return K.root(z3.StringVal(str(term[1:])))
    if kind == "split":
        shape, j = term[2], term[3]
        return K.split(key_z3(K, term[1]), int(np.prod(shape, dtype=int)), int(np.ravel_multi_index(tuple(j), tuple(shape))))
    if kind == "fold_in":
        return K.fold_in(key_z3(K, term[1]), z3.StringVal(str(term[2])))
    if kind == "seed":
        return K.seed(z3.StringVal(str(term[1])))
    return K.raw(z3.StringVal(str(term[1])), z3.StringVal(str(term[2])))


def batch_indices_check(chk):
    """_generate_batch_indices(key, n, batch_size): the batches are, in order, the first floor(n / batch_size) * batch_size entries of ONE
    permutation of 0..n-1 drawn with the given key (structural: the output cells are the permutation stub's own cells)"""
    import liesel.goose.optim as optim
    from ..harness import Result
    key = jax.random.PRNGKey(0)
    for n, bs in ((5, 2), (5, 3), (5, 4), (4, 2), (6, 3), (5, 5), (7, 4)):
        class _Ob:
            name = f"_generate_batch_indices(key, n={n}, batch_size={bs}): batches = consecutive slices of one permutation of all n observations drawn with the given key"
            signature = f"batch-indices:{n}:{bs}"

        def run(n=n, bs=bs):
            jp = jax.make_jaxpr(lambda k: optim._generate_batch_indices(k, n, bs))(key)
            I = Interp("real", poison_ok=True)
            out = I.eval_closed(jp, root_key("bk"))[0]
            sh = [d for d in I.draws if d["kind"] == "shuffle"]
            return out, sh
        res = chk.guarded(_Ob.signature, _Ob.name, run)
        if res is None:
            continue
        out, sh = res
        nb = n // bs
        ok = (len(sh) == 1 and tuple(np.shape(out)) == (nb, bs) and tuple(sh[0]["shape"]) == (n,) and "bk" in repr(sh[0]["keys"][0])
              and all(out[b, j] is sh[0]["out"][b * bs + j] for b in range(nb) for j in range(bs)))
        if ok:
            chk.results.append(Result(_Ob, "unsat", 0.0, {"tactic": "structural identity of the permutation cells"}))
            continue
        # replay on the real function: over several keys every observation must be able to appear and the membership must vary
        seen = [np.asarray(optim._generate_batch_indices(jax.random.PRNGKey(s_), n, bs)) for s_ in range(40)]
        shapes_ok = all(a.shape == (nb, bs) for a in seen)
        members = {int(v) for a in seen for v in a.reshape(-1)}
        distinct = all(len(set(a.reshape(-1).tolist())) == a.size for a in seen)
        varies = len({tuple(a.reshape(-1).tolist()) for a in seen}) > 1 or n == 1
        bad = not (shapes_ok and distinct and members == set(range(n)) and varies)
        rp = dict(reproduced=bool(bad), inputs=dict(n=n, batch_size=bs, keys="PRNGKey(0..39)"),
                  observed=dict(observations_ever_in_a_batch=sorted(members), distinct_batchings=len({tuple(a.reshape(-1).tolist()) for a in seen})),
                  note="over 40 keys: some observation never enters a batch, or the batches do not depend on the key" if bad else "real function behaves like a key-dependent permutation at 40 keys")
        chk.results.append(Result(_Ob, "sat", 0.0, {"tactic": "structural identity of the permutation cells"}, replay=rp))
        if bad:
            chk.violation(_Ob.signature, _Ob.name, rp)
        else:
            chk.harness_error(_Ob.signature, "encoding of _generate_batch_indices is not a slice of one permutation, but the real function behaves like one at 40 keys")


def validation_loss_obligation(chk):
    """one iteration of the captured loop body with a validation model that holds OTHER data (same size), the optimiser re-bound to optax's
    zero update (so that the new position stays an interpretable term): the entry written into history['loss_validation'] is the negative
    log-probability of the VALIDATION model (its own carried state, its own data) at the new position, the entry of loss_train that of the
    training model -- the stopping rule and the restored optimum are computed from exactly these series"""
    import liesel.goose as gs
    import optax
    mval_box = {}

    def other(m):
        mval_box["m"] = small_models(n=5, seed=3)
        return mval_box["m"]
    loc, cap = capture(other, 6, 2, optimizer=optax.set_to_zero())
    init = cap.init
    mtrain = loc["model_train"] if "model_train" in loc else loc.get("model")
    ival = gs.LieselInterface(mval_box["m"])
    itr = gs.LieselInterface(small_models())

    def one(val):
        v1 = cap.body(dict(val))
        pos = v1["position"]
        want_v = -ival.log_prob(ival.update_state(pos, val["model_state_validation"]))
        want_t = -itr.log_prob(itr.update_state(pos, val["model_state_train"]))
        return dict(hv=v1["history"]["loss_validation"], ht=v1["history"]["loss_train"], hv0=val["history"]["loss_validation"], i=v1["while_i"], want_v=want_v, want_t=want_t)
    flat, tree = jax.tree_util.tree_flatten(init)
    paths = [jax.tree_util.keystr(p_) for p_, _ in jax.tree_util.tree_flatten_with_path(init)[0]]
    sym = []
    for p_, a in zip(paths, flat):
        a = np.asarray(a)
        if p_ == "['key']":
            sym.append(root_key("vcarry"))
        elif a.dtype.kind in "iub":
            sym.append(a)
        else:
            sym.append(sym_array("vb" + "".join(ch for ch in p_ if ch.isalnum()), a.shape))
    sym_val = jax.tree_util.tree_unflatten(tree, sym)
    enc = chk.note_enc(Enc("optim_flat.body_fun, one iteration with a validation model holding other data (zero-update optimiser)", one, (init,), (sym_val,), key_roots={"vcarry": init["key"]}, poison_ok=True))

    def goal(V):
        ic = cells(V.out["i"])[0]
        ic = z3.simplify(ic) if z3.is_expr(ic) else ic
        if z3.is_expr(ic):
            i = ic.as_long() if z3.is_int_value(ic) else (int(ic.as_fraction()) if z3.is_rational_value(ic) else None)
        else:
            i = int(np.asarray(ic).reshape(-1)[0])
        hv, ht, hv0 = cells(V.out["hv"]), cells(V.out["ht"]), cells(V.out["hv0"])
        if i is None or any(isinstance(c, Poison) for c in (hv[i], ht[i], cells(V.out["want_v"])[0], cells(V.out["want_t"])[0])):
            raise Inconclusive("the recorded losses are not interpretable terms on this tree")
        tol = z3.RealVal("1/100000")
        dv, dt = hv[i] - cells(V.out["want_v"])[0], ht[i] - cells(V.out["want_t"])[0]
        return [], z3.And(dv <= tol, dv >= -tol, dt <= tol, dt >= -tol, *[hv[j] == hv0[j] for j in range(len(hv)) if j != i and not isinstance(hv[j], Poison)])
    def replay(ob, model, rng):
        out = one(init)
        i = int(np.asarray(out["i"]))
        got_v, want_v = float(np.asarray(out["hv"])[i]), float(np.asarray(out["want_v"]))
        got_t, want_t = float(np.asarray(out["ht"])[i]), float(np.asarray(out["want_t"]))
        bad = abs(got_v - want_v) > 1e-4 * (1 + abs(want_v)) or abs(got_t - want_t) > 1e-4 * (1 + abs(want_t))
        return dict(reproduced=bool(bad), inputs=dict(iteration=i, note="optim_flat's own initial carry; training and validation model hold different data of equal size"),
                    observed=dict(recorded_validation_loss=got_v, validation_model_neg_log_prob=want_v, recorded_training_loss=got_t, training_model_neg_log_prob=want_t),
                    note="one real loop iteration (zero-update optimiser)")
    return [Obligation("optim_flat loop body: the recorded validation loss is the validation model's negative log-probability (its own data and carried state) at the new position, "
                       "the recorded training loss the training model's; earlier entries untouched", [enc], goal, signature="loop-body:validation-loss", timeout_s=120, replay=replay)], enc


def loop_body_check(chk, batch_size=2):
    loc, cap = capture(None, 6, 2, batch_size=batch_size)
    init = cap.init

    def two(val):
        v1 = cap.body(dict(val))
        k1 = v1["key"]
        v2 = cap.body(dict(v1))
        return dict(k0=val["key"], k1=k1, k2=v2["key"], i=v2["while_i"])
    jp = jax.make_jaxpr(two)(init)
    flat, tree = jax.tree_util.tree_flatten(init)
    paths = [jax.tree_util.keystr(p) for p, _ in jax.tree_util.tree_flatten_with_path(init)[0]]
    I = Interp("real", poison_ok=True)
    args = []
    for p, a in zip(paths, flat):
        a = np.asarray(a)
        if p == "['key']":
            args.append(root_key("carry"))
        elif a.dtype.kind in "iub":
            args.append(a)
        else:
            args.append(sym_array("lb" + "".join(ch for ch in p if ch.isalnum()), a.shape))
    outs = I.eval_closed(jp, *args)
    shp = jax.eval_shape(two, init)
    opaths = [jax.tree_util.keystr(p) for p, _ in jax.tree_util.tree_flatten_with_path(shp)[0]]
    res = dict(zip(opaths, outs))
    shuffles = [d for d in I.draws if d["kind"] == "shuffle"]
    chk.extra["loop_body"] = dict(equations=sum(1 for _ in jp.jaxpr.eqns), shuffle_calls=len(shuffles), poisoned_primitives=sorted(set(I.poisoned))[:8],
                                  shuffle_keys=[repr(d["keys"][0]) for d in shuffles])
    chk.functions += ["liesel.goose.optim.optim_flat.body_fun (captured from the real call, traced twice in sequence)", "liesel.goose.optim._generate_batch_indices"]
    if len(shuffles) != 2:
        chk.harness_error("loop-body", f"expected one permutation per iteration (2), found {len(shuffles)}")
        return
    K = key_datatype()
    k_it1, k_it2 = key_z3(K, shuffles[0]["keys"][0].term), key_z3(K, shuffles[1]["keys"][0].term)
    s = z3.Solver()
    s.set("timeout", 30000)
    s.add(k_it1 == k_it2)
    r = str(s.check())      # unsat  <=> the two iterations permute with provably different keys
    chk.extra["loop_body"]["query_same_key"] = r
    from ..harness import Result

    class _Ob:
        name = "optim_flat loop: the key that draws the minibatch permutation in iteration k+1 differs from the one of iteration k"
        signature = "optim_flat:loop-key-not-advanced"
    if r == "unsat":
        chk.results.append(Result(_Ob, "unsat", 0.0, {"tactic": "z3 datatype"}))
    elif r == "sat":
        # replay on the real code: run the real body twice and compare the batches it draws
        import liesel.goose.optim as optim
        seen = []
        real_gen = optim._generate_batch_indices

        def spy_gen(key, n, batch_size):
            seen.append(np.asarray(jax.random.key_data(key)) if hasattr(key, "dtype") and jnp.issubdtype(key.dtype, jax.dtypes.prng_key) else np.asarray(key))
            return real_gen(key, n, batch_size)
        optim._generate_batch_indices = spy_gen
        try:
            loc2, cap2 = capture(None, 6, 2, batch_size=batch_size)
            with jax.disable_jit():
                v1 = cap2.body(dict(cap2.init))
                v2 = cap2.body(dict(v1))
        finally:
            optim._generate_batch_indices = real_gen
        same = len(seen) >= 2 and np.array_equal(seen[0], seen[1])
        chk.results.append(Result(_Ob, "sat", 0.0, {"tactic": "z3 datatype"}, replay=dict(reproduced=bool(same))))
        if same:
            chk.violation(_Ob.signature, _Ob.name, dict(reproduced=True, inputs=dict(batch_size=batch_size, n=5, batch_seed=1),
                                                        observed=dict(key_iteration_1=[int(t) for t in seen[0].reshape(-1)], key_iteration_2=[int(t) for t in seen[1].reshape(-1)]),
                                                        note="the same key (hence the same permutation and the same dropped remainder observations) in consecutive iterations; carry key unchanged: "
                                                             + repr(res["['k1']"].reshape(-1)[0])))
        else:
            chk.harness_error("loop-body", "solver says the keys coincide but the real body used different keys")
    else:
        chk.harness_error("loop-body", f"key query {r}")


def main():
    chk = Check("C20")
    obs = []
    pats = [1, 2] if chk.tier == "quick" else [1, 2, 3]
    N = 5 if chk.tier == "quick" else 6
    for P in pats:
        obs += stopper_obligations(chk, N, P)
    for P in (2, N):
        obs += chk.guarded(f"stopper:static-index:{P}:trace", "tracing the stopper with a Python-int index", stopper_static_index, chk, N, P) or []
    obs += chk.guarded("stopper:reuse:trace", "tracing a re-used Stopper", stopper_reuse_obligation, chk, N) or []
    chk.functions += ["liesel.goose.optim.Stopper.stop_early/stop_now/continue_/which_best_in_recent_history"]
    scen = [(True, False, True), (False, True, True), (True, True, False)] if chk.tier == "quick" else \
        [(v, p, r) for v in (True, False) for p in (True, False) for r in (True, False)]
    MAXIT, PAT = 5, 2
    wis = [3] if chk.tier == "quick" else [2, 3, 4]
    for (v, p, r) in scen:
        for WI in wis:
            o, enc = postloop_obligations(chk, v, p, r, MAXIT, PAT, WI)
            obs += o
            chk.validated_points += enc.validate(chk.rng, npoints=1)
    for (v, p, r) in [(True, False, True)] if chk.tier == "quick" else [(True, False, True), (False, True, False)]:
        o, enc = postloop_obligations(chk, v, p, r, MAXIT, PAT, wis[0], auto_off=True)
        obs += o
        chk.validated_points += enc.validate(chk.rng, npoints=1)
    chk.functions += ["liesel.goose.optim.optim_flat (pre-loop part executed, statements after the while_loop sliced from the source and traced)"]
    rv = chk.guarded("loop-body:validation-loss:trace", "tracing one loop iteration with a validation model", validation_loss_obligation, chk)
    if rv:
        obs += rv[0]
    res = chk.guarded("two-params:trace", "tracing the post-loop slice with two parameters", two_param_obligation, chk, MAXIT, PAT, wis[-1])
    if res:
        obs += res[0]
        chk.validated_points += res[1].validate(chk.rng, npoints=1)
    loop_body_check(chk)
    batch_indices_check(chk)
    chk.run(obs)
    chk.bounds += [f"Stopper: loss history of N = {N} float32 values (non-NaN), every iteration index 0..N-1, patience in {pats}, atol/rtol arbitrary float32 (non-NaN)",
                   f"post-loop: max_iter = {MAXIT}, patience = {PAT}, final iteration in {wis}; loss histories, position history (2 coefficients) and current position symbolic reals",
                   "loop body: two consecutive iterations, batch size 2 of n = 5 (not dividing the sample size)"]
    chk.enumerated += [f"post-loop scenario validation-model={v} prune_history={p} restore_best_position={r}" for v, p, r in scen]
    chk.assume("Stopper boundary i in {p-1, p} left unconstrained: docstring and code can both be read there", "loss histories contain no NaN (documented use)",
               "jax.random.permutation is an arbitrary permutation determined by its key (ideal PRNG; keys as free-algebra terms)",
               "optax update rule, minibatch gathers: poison (not interpreted); convergence outside the claim")
    return chk.finish(technique=TECH)
