"""C09 Kernels compose blockwise and keep the model state coherent (Engine B, real mode)."""
import jax
import jax.numpy as jnp
import numpy as np
import z3

from .. import kernels as K
from .. import models as M
from ..harness import Check, Enc, Obligation, all_eq, cells, symlike
from ..jx2smt import root_key
from .c03 import regression_with_report

TECH = ("jaxpr of the real KernelSequence.transition and, as reference, of the sequential composition of the individual kernels' transitions (random draws aligned in order of occurrence); "
        "derived nodes compared with a re-traced update_state on the output parameters; interpreted over z3 reals; z3/nlsat decides each negated obligation, with accept/reject case splits")


def liesel_setup():
    import liesel.goose as gs
    model = regression_with_report()
    iface = gs.LieselInterface(model)
    return model, iface


def int_init_model():
    """a Gibbs-updated parameter initialised with an integer literal (its stored dtype is int32); the Gibbs draw is a float"""
    import liesel.model as lsl
    import tensorflow_probability.substrates.jax.distributions as tfd
    tau = lsl.Var(1, name="tau")
    scale = lsl.Var(lsl.Calc(lambda t: jnp.sqrt(t + 1.0), tau), name="scale")
    mu = lsl.Var(0.3, lsl.Dist(tfd.Normal, loc=0.0, scale=scale), name="mu")
    mu.parameter = True
    y = lsl.Var(jnp.array([0.1, 0.7]), lsl.Dist(tfd.Normal, loc=mu, scale=scale), name="y")
    y.observed = True
    return lsl.GraphBuilder().add(y).build_model()


def plain_node_model():
    """a strong value node that is not wrapped in a variable (a legal position key) as the block of a Gibbs kernel"""
    import liesel.model as lsl
    import tensorflow_probability.substrates.jax.distributions as tfd
    tau = lsl.Value(2.0, _name="tau")
    scale = lsl.Var(lsl.Calc(lambda t: jnp.sqrt(t), tau), name="scale")
    mu = lsl.Var(0.3, lsl.Dist(tfd.Normal, loc=0.0, scale=scale), name="mu")
    mu.parameter = True
    y = lsl.Var(jnp.array([0.1, 0.7]), lsl.Dist(tfd.Normal, loc=mu, scale=scale), name="y")
    y.observed = True
    return lsl.GraphBuilder().add(y).build_model()


def gibbs_plain(key, st):
    r = st["y_value"].value - st["mu_value"].value
    return {"tau": 0.5 + jnp.mean(r ** 2) + 0.5 * jax.random.uniform(key, ())}


def gibbs_tau(key, st):
    r = st["y_value"].value - st["mu_value"].value
    return {"tau": 0.25 + jnp.mean(r ** 2) + 0.5 * jax.random.uniform(key, ())}


def gibbs_fn(key, st):
    r = st["y_value"].value - st["mu_value"].value
    return {"sigma_transformed": 0.5 * jnp.log(jnp.mean(r ** 2) + 0.1) + 0.1 * jax.random.normal(key, ())}


def mh_prop(key, st, step):
    import liesel.goose as gs
    z = jax.random.normal(key, ())
    cur = st["sigma_transformed_value"].value
    return gs.MHProposal({"sigma_transformed": cur + step * z}, log_correction=0.1 * step * z)


def gibbs_beta(key, st):
    """a second Gibbs block that reads the block the first one has just updated"""
    s_ = st["sigma_transformed_value"].value
    return {"beta": jnp.array([0.3, -0.1]) * s_ + 0.2 * jax.random.normal(key, (2,))}


def mh_prop_node(key, st, step):
    """as mh_prop, but the proposal is keyed by the value node's name"""
    import liesel.goose as gs
    z = jax.random.normal(key, ())
    cur = st["sigma_transformed_value"].value
    return gs.MHProposal({"sigma_transformed_value": cur + step * z}, log_correction=0.1 * step * z)


PYNUM = "liesel:MH+RW(scalar parameter stored as a Python number)"


AUTO_OFF = "liesel:RW+Gibbs(model with auto_update = False)"


def make_sequence(kind):
    """returns (kernels, model interface, example model state builder, free input values, kernel-state examples, rec)"""
    import liesel.goose as gs
    from liesel.goose.iwls import IWLSKernelState
    from liesel.goose.nuts import NUTSKernelState
    from liesel.goose.rw import RWKernelState
    rec = {}
    if kind.startswith("liesel"):
        model, iface = liesel_setup()
        param_keys = ["beta_value", "sigma_transformed_value"]
        if kind == "liesel:Gibbs(int-initialised parameter)+RW":
            model = int_init_model()
            iface = gs.LieselInterface(model)
            ks = [gs.GibbsKernel(["tau"], gibbs_tau), gs.RWKernel(["mu"])]
            kst = [{}, RWKernelState(0.4)]
            param_keys = ["tau_value", "mu_value"]
        elif kind == "liesel:RW+MH(position keys are value-node names)":
            ks = [gs.RWKernel(["beta_value"]), gs.MHKernel(["sigma_transformed_value"], mh_prop_node)]
            kst = [RWKernelState(0.4), RWKernelState(0.3)]
        elif kind == PYNUM:
            ks = [gs.MHKernel(["sigma_transformed"], mh_prop), gs.RWKernel(["beta"])]      # the Python-number leaf belongs to the FIRST kernel's block
            kst = [RWKernelState(0.3), RWKernelState(0.4)]
        elif kind == "liesel:Gibbs+Gibbs(second reads the first's block)":
            ks = [gs.GibbsKernel(["sigma_transformed"], gibbs_fn), gs.GibbsKernel(["beta"], gibbs_beta)]
            kst = [{}, {}]
        elif kind == "liesel:RW+Gibbs(block is a plain value node)":
            model = plain_node_model()
            iface = gs.LieselInterface(model)
            ks = [gs.RWKernel(["mu"]), gs.GibbsKernel(["tau"], gibbs_plain)]
            kst = [RWKernelState(0.4), {}]
            param_keys = ["mu_value", "tau"]
        elif kind == "liesel:RW+Gibbs":
            ks = [gs.RWKernel(["beta"]), gs.GibbsKernel(["sigma_transformed"], gibbs_fn)]
            kst = [RWKernelState(0.4), {}]
        elif kind == AUTO_OFF:
            # the user's model defers updates (auto_update = False, a public setting): every write-back of a kernel still has to leave ALL
            # tracked nodes coherent, also derived nodes that feed no distribution (the residual report node)
            model.auto_update = False
            iface = gs.LieselInterface(model)
            ks = [gs.RWKernel(["beta"]), gs.GibbsKernel(["sigma_transformed"], gibbs_fn)]
            kst = [RWKernelState(0.4), {}]
        elif kind == "liesel:IWLS+RW":
            ks = [gs.IWLSKernel(["beta"]), gs.RWKernel(["sigma_transformed"])]
            kst = [IWLSKernelState(0.5), RWKernelState(0.3)]
        elif kind == "liesel:NUTS+MH":
            ks = [gs.NUTSKernel(["beta"], initial_step_size=0.1), gs.MHKernel(["sigma_transformed"], mh_prop)]
            kst = [NUTSKernelState(0.1, jnp.ones(2)), RWKernelState(0.3)]
        elif kind == "liesel:Gibbs+RW+RW(ids not sorted)":
            ks = [gs.GibbsKernel(["sigma_transformed"], gibbs_fn), gs.RWKernel(["beta"]), gs.RWKernel(["sigma_transformed"])]
            kst = [{}, RWKernelState(0.4), RWKernelState(0.2)]
        else:
            raise ValueError(kind)
        for k in ks:
            k.set_model(iface)
        st0 = model.state
        vals0 = M.values_of(st0)
        free = {k: jnp.asarray(vals0[k]) for k in M.strong_names(model) if np.asarray(vals0[k]).dtype.kind == "f" and not M.is_concrete_name(k)}
        if kind == PYNUM:
            # kernels driven directly (no engine, no jit) on a state whose scalar parameter is a plain Python number, as `lsl.param(0.0, ...)`
            # without float32 conversion stores it: that leaf is a constant of the encoding, everything else stays symbolic
            vals0 = dict(vals0)
            vals0["sigma_transformed_value"] = 0.0
            del free["sigma_transformed_value"]
        ref_model = (int_init_model() if kind == "liesel:Gibbs(int-initialised parameter)+RW" else plain_node_model() if "plain value node" in kind else regression_with_report())   # built independently, not with the interface's copy helper
        strong_all = M.strong_names(model)

        def recompute(nv, st):
            """from-scratch evaluation on a private model copy: all input values assigned, everything else flagged outdated, full update"""
            ref_model.state = st
            for k in strong_all:
                ref_model.nodes[k]._value = nv[k]
            for nd in ref_model.nodes.values():
                nd._outdated = nd.name not in strong_all
            ref_model.update()
            return ref_model.state

        def mkstate(sv):
            """a coherent, complete input state at arbitrary input values, produced WITHOUT the interface under test (which must not have seen these values before)"""
            return recompute({**{k: vals0[k] for k in strong_all}, **sv}, st0)
        valsof = M.values_of
    else:
        import liesel.goose as gs
        iface = gs.DictInterface(K.lp_ab)
        if kind == "dict:RW+MH":
            ks = [gs.RWKernel(["a"]), gs.MHKernel(["b"], K.mh_proposal)]
            kst = [RWKernelState(0.4), RWKernelState(0.3)]
        elif kind == "dict:NUTS+RW":
            ks = [gs.NUTSKernel(["a"], initial_step_size=0.1), gs.RWKernel(["b"])]
            kst = [NUTSKernelState(0.1, jnp.ones(2)), RWKernelState(0.3)]
        else:
            raise ValueError(kind)
        for k in ks:
            k.set_model(iface)
        free = dict(K.STATE_AB)
        mkstate = lambda sv: dict(sv)
        recompute = None
        valsof = lambda s: dict(s)
        param_keys = ["a", "b"]
    ids = ["k_z", "k_a", "k_m"]          # deliberately not in alphabetical order
    for k, i in zip(ks, ids):
        k.identifier = i
    return ks, iface, mkstate, recompute, valsof, free, kst, param_keys, rec


def scenario(chk, kind, finite_uf=False):
    from liesel.goose.kernel_sequence import KernelSequence
    rec = {}
    with K.stub_blackjax(rec):
        ks, iface, mkstate, recompute, valsof, free, kst, param_keys, _ = make_sequence(kind)
        seq = KernelSequence(ks)
        ep = K.epoch_state(4, 0)
        n = len(ks)

        def f_seq(key, kstates, sv):
            st = mkstate(sv)
            out = seq.transition(key, kstates, st, ep)
            new = out.model_state
            res = dict(new=valsof(new), inp=valsof(st), moved=[jnp.asarray(out.infos[k.identifier].position_moved) for k in ks],
                       acc=[jnp.asarray(out.infos[k.identifier].acceptance_prob, jnp.float32) for k in ks], kst=out.kernel_states)
            if recompute is not None:
                nv = valsof(new)
                res["ref"] = valsof(recompute(nv, st))
            return res

        def f_orc(keys, kstates, sv):
            st = mkstate(sv)
            moved, acc, kso, steps = [], [], [], [valsof(st)]
            for i, k in enumerate(ks):
                r = k.transition(keys[i], kstates[i], st, ep)
                st = r.model_state
                moved.append(jnp.asarray(r.info.position_moved))
                acc.append(jnp.asarray(r.info.acceptance_prob, jnp.float32))
                kso.append(r.kernel_state)
                steps.append(valsof(st))
            return dict(new=valsof(st), moved=moved, acc=acc, kst=kso, steps=steps)
        f_seq, f_orc = K.with_stub(f_seq, rec), K.with_stub(f_orc, rec)
        key = jax.random.PRNGKey(9)
        okeys = jax.random.split(key, n)
        pre = "".join(ch for ch in kind if ch.isalnum()) + ("fu" if finite_uf else "")
        s_kst = symlike(kst, pre + "ks")
        s_free = symlike(free, pre + "s")
        dom = {}
        for c in [c for a in jax.tree_util.tree_leaves(s_kst) for c in cells(a)]:
            if "step_size" in c.decl().name() or "inverse_mass" in c.decl().name():
                dom[c.decl().name()] = (0.2, 0.8)
        for kname, a in s_free.items():
            for c, v in zip(cells(a), np.asarray(free[kname]).reshape(-1)):
                v = float(v)
                dom[c.decl().name()] = (0.7 * v, 1.3 * v) if v > 0 else ((1.3 * v, 0.7 * v) if v < 0 else (-0.5, 0.5))
        chol = "explicit"
        fu = dict(finite_uf=True) if finite_uf else {}
        sfx = " (is_finite arbitrary)" if finite_uf else ""
        e_seq = chk.note_enc(Enc(f"KernelSequence.transition[{kind}]{sfx}", f_seq, (key, kst, free), (root_key("k"), s_kst, s_free), key_roots={"k": key}, domain=dom, chol=chol, **fu))
        okey_sym = np.stack([root_key(f"o{i}") for i in range(n)])
        e_orc = chk.note_enc(Enc(f"sequential composition[{kind}]{sfx}", f_orc, (okeys, kst, free), (okey_sym, s_kst, s_free),
                                 key_roots={f"o{i}": okeys[i] for i in range(n)}, domain=dom, chol=chol, **fu))
    return e_seq, e_orc, ks, param_keys, s_free, recompute is not None


def align(Vs):
    """pair the random draws of the two encodings in order of occurrence; None if their kinds/shapes differ"""
    d1 = [d for d in Vs[0].I.draws if d["kind"] != "bits"]
    d2 = [d for d in Vs[1].I.draws if d["kind"] != "bits"]
    c1 = [c for c in Vs[0].I.calls]
    c2 = [c for c in Vs[1].I.calls]
    if [(d["kind"], d["shape"]) for d in d1] != [(d["kind"], d["shape"]) for d in d2] or [c[0] for c in c1] != [c[0] for c in c2]:
        return None
    sub = []
    for a, b in zip(d1, d2):
        for x, y in zip(cells(a["out"]), cells(b["out"])):
            if z3.is_expr(x) and z3.is_expr(y) and not x.eq(y):
                sub.append((y, x))
    for a, b in zip(c1, c2):          # stubbed callees (blackjax): outputs paired, arguments must agree (checked separately)
        for oa, ob_ in zip(a[2], b[2]):
            for x, y in zip(cells(oa), cells(ob_)):
                if not x.eq(y):
                    sub.append((y, x))
    return sub


def obligations(kind, e_seq, e_orc, ks, param_keys, s_free, has_derived):
    obs = []
    n = len(ks)

    def compose(Vs, what):
        sub = align(Vs)
        if sub is None:
            return [], z3.BoolVal(False)
        S, O = Vs[0].out, Vs[1].out

        def sb(t):
            return z3.substitute(t, *sub) if sub and z3.is_expr(t) else t
        goals = []
        if what == "state":
            for k in S["new"]:
                goals += [x == sb(y) for x, y in zip(cells(S["new"][k]), cells(O["new"][k]))]
        elif what == "infos":
            for i in range(n):
                goals += [cells(S["moved"][i])[0] == sb(cells(O["moved"][i])[0]), cells(S["acc"][i])[0] == sb(cells(O["acc"][i])[0])]
            for a, b in zip(jax.tree_util.tree_leaves(S["kst"]), jax.tree_util.tree_leaves(O["kst"])):
                goals += [x == sb(y) for x, y in zip(cells(a), cells(b))]
        elif what == "stub-args":
            for a, b in zip(Vs[0].I.calls, Vs[1].I.calls):
                for xa, xb in zip(a[1][:-1], b[1][:-1]):        # all but the key
                    goals += [x == sb(y) for x, y in zip(cells(xa), cells(xb)) if z3.is_expr(x) and z3.is_expr(y)]
        return [], z3.And(*goals) if goals else z3.BoolVal(True)
    pos = []
    for c in [c for a in jax.tree_util.tree_leaves(e_seq.sym_args[1]) for c in cells(a)]:
        if "step_size" in c.decl().name():
            pos.append(c > 0)
    obs.append(Obligation(f"[{kind}] the sequence's output state = running the kernels one after the other in the configured order, each from its predecessor's state", [e_seq, e_orc],
                          lambda Vs: (pos + compose(Vs, "state")[0], compose(Vs, "state")[1]), signature=f"{kind}:composition", timeout_s=180))
    obs.append(Obligation(f"[{kind}] transition infos and kernel states are those of the individual kernels, under their identifiers", [e_seq, e_orc],
                          lambda Vs: (pos, compose(Vs, "infos")[1]), signature=f"{kind}:infos", timeout_s=180))
    if e_seq.I.calls:
        obs.append(Obligation(f"[{kind}] the stubbed sampler (blackjax) receives the same position / log-density / gradient / tuning in the sequence as in the composition", [e_seq, e_orc],
                              lambda Vs: (pos, compose(Vs, "stub-args")[1]), signature=f"{kind}:stub-args", timeout_s=180))
    # entries outside every kernel's position keys are untouched
    keys_touched = set(param_keys)

    def untouched(V):
        new, inp = V.out["new"], V.out["inp"]
        strong = [k for k in inp if (k in s_free) and k not in keys_touched]
        return pos, z3.And(*[all_eq(new[k], inp[k]) for k in strong]) if strong else z3.BoolVal(True)
    obs.append(Obligation(f"[{kind}] inputs that belong to no kernel's block (data, hyper-parameters, other parameters) are returned untouched", [e_seq], untouched, signature=f"{kind}:untouched"))
    # each kernel on its own changes only the parameters named in its position keys (and what is derived from them)
    def own_block(V):
        steps = V.out["steps"]
        goals = []
        for i, k in enumerate(ks):
            own = set()
            for pk in k.position_keys:
                own.add(pk)
                own.add(pk + "_value")
            for key in s_free:
                if key not in own and key in steps[i]:
                    goals.append(all_eq(steps[i + 1][key], steps[i][key]))
        return pos, z3.And(*goals) if goals else z3.BoolVal(True)
    obs.append(Obligation(f"[{kind}] every kernel leaves all input values outside its own position keys exactly as it found them (other kernels' blocks included)", [e_orc], own_block,
                          signature=f"{kind}:own-block"))
    if has_derived:
        moved_terms = [cells(m)[0] for m in e_seq.out["moved"]]
        preds = [m for m in moved_terms if z3.is_expr(m) and not (z3.is_true(z3.simplify(m)) or z3.is_false(z3.simplify(m))) and not z3.is_int_value(z3.simplify(m))]
        import itertools
        for combo in itertools.product([True, False], repeat=len(preds)):
            case = [(p, z3.BoolVal(v)) for p, v in zip(preds, combo)]
            lab = ",".join("accept" if v else "reject" for v in combo) or "no accept/reject step"

            def coh(V):
                new, ref = V.out["new"], V.out["ref"]
                return pos, z3.And(*[all_eq(new[k], ref[k]) for k in new if k in ref])
            obs.append(Obligation(f"[{kind}] after the iteration ({lab}) every derived node incl. the stored log-probability equals its recomputation from the stored parameters", [e_seq], coh,
                                  signature=f"{kind}:coherent", case=case or None, timeout_s=180, twin=False))
    return obs


def main():
    chk = Check("C09")
    kinds = ["liesel:RW+Gibbs", "liesel:NUTS+MH", "dict:RW+MH", "liesel:Gibbs+RW+RW(ids not sorted)", "liesel:Gibbs(int-initialised parameter)+RW", "liesel:RW+MH(position keys are value-node names)", "liesel:Gibbs+Gibbs(second reads the first's block)", "liesel:RW+Gibbs(block is a plain value node)", PYNUM, AUTO_OFF] if chk.tier == "quick" else \
        ["liesel:RW+Gibbs", "liesel:IWLS+RW", "liesel:NUTS+MH", "liesel:Gibbs+RW+RW(ids not sorted)", "dict:RW+MH", "dict:NUTS+RW", "liesel:Gibbs(int-initialised parameter)+RW", "liesel:RW+MH(position keys are value-node names)", "liesel:Gibbs+Gibbs(second reads the first's block)", "liesel:RW+Gibbs(block is a plain value node)", PYNUM, AUTO_OFF]
    obs = []
    for kind in kinds:
        res = chk.guarded(f"{kind}:trace", f"[{kind}] tracing the kernel sequence", scenario, chk, kind)
        if res is None:
            continue
        e_seq, e_orc, ks, param_keys, s_free, has_derived = res
        obs += obligations(kind, e_seq, e_orc, ks, param_keys, s_free, has_derived)
        chk.validate(e_seq)
    # error paths: `is_finite` as an arbitrary predicate, so that code reacting to non-finite draws is reachable in real arithmetic
    kind = "liesel:RW+Gibbs"
    res = chk.guarded(f"{kind}:trace-finite", f"[{kind}] tracing the kernel sequence (is_finite arbitrary)", scenario, chk, kind, True)
    if res is not None:
        e_seq, e_orc, ks, param_keys, s_free, has_derived = res
        ob = [o for o in obligations(kind, e_seq, e_orc, ks, param_keys, s_free, False) if o.signature.endswith(":composition")][0]
        ob.name = ob.name + " -- also when a draw is non-finite (is_finite an arbitrary predicate)"
        ob.signature = f"{kind}:composition:non-finite"

        def replay_nf(o_, model, rng, e_seq=e_seq, e_orc=e_orc):
            """real run with a NaN observation (the Gibbs draw becomes NaN): sequence vs kernels applied one after the other with the same keys"""
            key, kst, free = e_seq.example_args
            free = dict(free)
            free["y_value"] = jnp.asarray(free["y_value"]).at[0].set(jnp.nan)
            a = e_seq.fn(key, kst, free)["new"]
            b = e_orc.fn(jax.random.split(key, len(ks)), kst, free)["new"]
            diff = [k for k in a if not np.allclose(np.asarray(a[k]), np.asarray(b[k]), rtol=1e-5, atol=1e-6, equal_nan=True)]
            return dict(reproduced=bool(diff), inputs=dict(y_value="first observation NaN"), observed=dict(differing_entries=diff[:6], sequence={k: np.asarray(a[k]).tolist() for k in diff[:3]},
                                                                                                          one_after_the_other={k: np.asarray(b[k]).tolist() for k in diff[:3]}),
                        note="KernelSequence.transition differs from running its kernels one after the other when a draw is non-finite" if diff else "identical also with a NaN draw")
        ob.custom_replay = replay_nf
        obs.append(ob)
    chk.run(obs)
    chk.functions += ["liesel.goose.kernel_sequence.KernelSequence.transition", "liesel.goose.rw.RWKernel.transition", "liesel.goose.gibbs.GibbsKernel.transition", "liesel.goose.mh_kernel.MHKernel.transition",
                      "liesel.goose.iwls.IWLSKernel.transition", "liesel.goose.nuts.NUTSKernel.transition (blackjax stubbed)", "liesel.goose.mh.mh_step", "liesel.goose.interface.LieselInterface/DictInterface.update_state"]
    chk.bounds += ["one iteration of a 2-3 kernel sequence from an arbitrary coherent model state and arbitrary kernel states (any number of iterations follows by induction on coherence)",
                   "regression model with derived mean, residual report node and transformed scale; toy Dict model"]
    chk.enumerated += kinds
    chk.assume("random draws of the sequence and of the reference composition are paired in order of occurrence (ideal PRNG: which key a draw uses does not matter, C10 checks key distinctness)",
               "input model state coherent (produced by update_state from arbitrary input values)", "blackjax kernel stubbed (arbitrary new position, acceptance rate)", "real arithmetic")
    return chk.finish(technique=TECH)
