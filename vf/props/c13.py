"""C13 Gibbs kernels draw from the exact full conditional (Engine B, real mode)."""
import contextlib
import types

import jax
import jax.numpy as jnp
import numpy as np
import z3

from .. import stubs
from ..harness import Check, Enc, Inconclusive, Obligation, all_eq, cells, symlike
from ..jx2smt import NonFinite, root_key

TECH = ("jaxpr of the real tau2_gibbs_kernel / finite_discrete_gibbs_kernel transition functions traced together with the model's log-probability (through LieselInterface) at symbolic "
        "values of the sampled variable; gamma / categorical samplers are contract stubs; interpreted over z3 reals; z3/nlsat decides each negated obligation")


def penalties():
    D1 = np.diff(np.eye(3), axis=0)
    D2 = np.diff(np.eye(4), n=2, axis=0)
    return {"RW1(3x3, rank 2)": (D1.T @ D1).astype(np.float32), "identity(3x3, full rank)": np.eye(3, dtype=np.float32),
            "2e-7 * RW1(3x3): eigenvalues below the 1e-6 tolerance, rank 2 supplied by the builder": (2e-7 * (D1.T @ D1)).astype(np.float32),
            "rank-1(2x2)": np.array([[1.0, -1.0], [-1.0, 1.0]], dtype=np.float32), "RW2(4x4, rank 2)": (D2.T @ D2).astype(np.float32)}


def tau2_scenario(chk, pname, K, second=False):
    import liesel.goose as gs
    import liesel.model as lsl
    import tensorflow_probability.substrates.jax.bijectors as tfb
    import tensorflow_probability.substrates.jax.distributions as tfd
    from liesel.model.distreg import DistRegBuilder, tau2_gibbs_kernel
    n = K.shape[0]
    rng = np.random.default_rng(3)
    X = rng.normal(size=(4, n)).astype(np.float32)
    yv = rng.normal(size=4).astype(np.float32)
    b = DistRegBuilder()
    b.add_response(yv, tfd.Normal)
    b.add_predictor("loc", tfb.Identity)
    b.add_predictor("scale", tfb.Exp)
    b.add_np_smooth(X, K, a=2.0, b=0.5, predictor="loc", name="s1")
    if second:      # a second smooth with its own hyper-parameters, coefficients and penalty; the obligation is about ITS kernel, traced after the first smooth's
        X = rng.normal(size=(4, 2)).astype(np.float32)
        K = np.array([[2.0, -1.0], [-1.0, 2.0]], dtype=np.float32)
        n = 2
        b.add_np_smooth(X, K, a=3.0, b=0.7, predictor="loc", name="s2")
    b.add_p_smooth(np.ones((4, 1), np.float32), m=0.0, s=10.0, predictor="scale", name="p1")
    model = b.build_model()
    group = model.groups()["s2" if second else "s1"]
    kern = tau2_gibbs_kernel(group)
    iface = gs.LieselInterface(model)
    kern.set_model(iface)
    kern_first = None
    if second:
        kern_first = tau2_gibbs_kernel(model.groups()["s1"])
        kern_first.set_model(iface)
    tname = group["tau2"].name
    full0 = model.state
    names = {k: group[k].name for k in ("a", "b", "beta", "tau2")}
    free0 = {names["a"]: jnp.asarray(3.0 if second else 2.0), names["b"]: jnp.asarray(0.7 if second else 0.5), names["beta"]: jnp.asarray(rng.normal(size=n).astype(np.float32)), names["tau2"]: jnp.asarray(1.3)}

    def f(key, fv, t1, t2):
        st = iface.update_state(fv, full0)              # coherent state at arbitrary hyper-parameters / coefficients
        if kern_first is not None:
            kern_first._transition_fn(jax.random.fold_in(key, 1), st)
        pos = kern._transition_fn(key, st)
        lp1 = iface.log_prob(iface.update_state({tname: t1}, st))
        lp2 = iface.log_prob(iface.update_state({tname: t2}, st))
        return dict(draw=pos[tname], lp1=lp1, lp2=lp2, keys=jnp.asarray(len(pos)))
    pre = "".join(ch for ch in pname if ch.isalnum())
    key = jax.random.PRNGKey(13)
    sfv = symlike(free0, "t2" + pre)
    t1, t2 = z3.Real(f"tau_1_{pre}"), z3.Real(f"tau_2_{pre}")
    sc = lambda v: np.array(v, dtype=object).reshape(())
    a_c, b_c = cells(sfv[names["a"]])[0], cells(sfv[names["b"]])[0]
    cur = cells(sfv[names["tau2"]])[0]
    dom = {a_c.decl().name(): (1.0, 3.0), b_c.decl().name(): (0.3, 1.0), cur.decl().name(): (0.5, 2.0), t1.decl().name(): (0.5, 2.0), t2.decl().name(): (0.5, 2.0)}
    enc = chk.note_enc(Enc(f"tau2_gibbs_kernel[{pname}]", f, (key, free0, 1.0, 2.0), (root_key("k"), sfv, sc(t1), sc(t2)), key_roots={"k": key}, domain=dom))
    hyps = [t1 > 0, t2 > 0, a_c > 0, b_c > 0, cur > 0]

    def goal(V):
        gam = [d for d in V.I.draws if d["kind"] == "gamma"]
        if len(gam) != (2 if second else 1):
            return hyps, z3.BoolVal(False)
        G = cells(gam[-1]["out"])[0]
        a_g = gam[-1]["extra"][0]
        draw = cells(V.out["draw"])[0]
        b_g = draw * G
        ig = lambda t: -(a_g + 1) * V.log(t) - b_g / t
        d = (cells(V.out["lp1"])[0] - cells(V.out["lp2"])[0]) - (ig(t1) - ig(t2))
        tol = z3.RealVal("1/100000")
        return hyps + [G > 0], z3.And(d <= tol, d >= -tol)
    def replay_far(ob, model, rng):
        """generic replay first; then a far-field probe the generic tolerance cannot see: with the coefficients at zero the draw b*/Gamma(a*) is
        proportional to the prior scale b for a fixed key, also for very small b (compared on the ratio, i.e. relatively)"""
        from ..harness import build_query, replay_model
        cr, ob.custom_replay = ob.custom_replay, None
        try:
            hy, gl = build_query(ob)
            rp = replay_model(ob, model, rng, hy, gl)
        finally:
            ob.custom_replay = cr
        if rp.get("reproduced"):
            return rp
        beta0 = jnp.zeros_like(free0[names["beta"]])
        for sd in range(3):
            k_ = jax.random.PRNGKey(100 + sd)
            d = {}
            for bv in (0.5, 1e-6, 1e-10):
                st = iface.update_state({**free0, names["beta"]: beta0, names["b"]: jnp.asarray(bv, dtype=jnp.float32)}, full0)
                d[bv] = float(np.asarray(kern._transition_fn(k_, st)[tname], dtype=np.float64))
            for bv in (1e-6, 1e-10):
                want = d[0.5] * (bv / 0.5)
                if not (d[bv] > 0 and abs(d[bv] / want - 1.0) <= 1e-3):
                    return dict(reproduced=True, inputs=dict(key=[0, 100 + sd], coefficients="0", a=float(free0[names["a"]]), b=bv), observed=dict(draw=d[bv], draw_at_b_0_5=d[0.5], expected_by_scale_equivariance=want),
                                note="same key, coefficients zero: the inverse-gamma draw b/G must scale with b; it does not for a small prior scale")
        rp["note"] = (rp.get("note", "") + " | far-field probe (b = 1e-6, 1e-10, coefficients 0): draws scale with b").strip()
        return rp
    ob = Obligation(f"tau2_gibbs_kernel[{pname}]: the draw b*/Gamma(a*) is inverse-gamma(a*, b*) and log pi(tau) - log pi(tau') = log IG(tau; a*, b*) - log IG(tau'; a*, b*) "
                    "with pi the model's joint density as a function of tau2 alone", [enc], goal, signature=f"tau2:{pname}", timeout_s=120, replay=replay_far)
    return [ob], enc


@contextlib.contextmanager
def stub_categorical():
    import liesel.model.goose as mg
    real_jax = mg.jax

    def cat(key, logits, axis=-1, shape=None):
        return stubs.stub("categorical", (key, logits), jnp.zeros((), jnp.int32), real=lambda k_, l_: jax.random.categorical(k_, l_))
    proxy_random = types.SimpleNamespace(**{k: getattr(real_jax.random, k) for k in dir(real_jax.random) if not k.startswith("_")})
    proxy_random.categorical = cat

    class Proxy:
        def __getattr__(self, item):
            if item == "random":
                return proxy_random
            return getattr(real_jax, item)
    mg.jax = Proxy()
    try:
        yield
    finally:
        mg.jax = real_jax


def fd_scenario(chk, label, kind, outcomes, explicit):
    import liesel.goose as gs
    import liesel.model as lsl
    import tensorflow_probability.substrates.jax.distributions as tfd
    from liesel.model.goose import finite_discrete_gibbs_kernel
    m_out = len(outcomes)
    if kind.startswith("FiniteDiscrete"):
        grid = lsl.Var(jnp.asarray(sorted(outcomes), dtype=jnp.float32), name="grid")
        pv = np.linspace(1, 2, m_out) / np.linspace(1, 2, m_out).sum()
        if kind.endswith("zero-prob"):
            pv = np.array([0.25, 0.0] + [0.75 / (m_out - 2)] * (m_out - 2))       # a structural zero: the second outcome is impossible
        probs = lsl.Var(jnp.asarray(pv, dtype=jnp.float32), name="probs")
        k = lsl.Var(1 if kind.endswith("int-initialised") else float(sorted(outcomes)[0]), lsl.Dist(tfd.FiniteDiscrete, outcomes=grid, probs=probs), name="k")
    else:
        probs = lsl.Var(jnp.asarray(0.7), name="probs")
        k = lsl.Var(1, lsl.Dist(tfd.Bernoulli, probs=probs), name="k")
    s = lsl.Var(1.2, name="s")
    loc = lsl.Var(lsl.Calc(lambda kk: 0.5 * kk, k), name="loc")
    if kind.endswith("shared"):
        # the node downstream of the discrete variable feeds the response twice (location directly, scale through a second node): a by-name
        # update inside the kernel has to refresh it before both of its dependants
        loc2 = lsl.Var(lsl.Calc(lambda l: l + 0.125, loc), name="loc2")
        sc2 = lsl.Var(lsl.Calc(lambda l, s_: s_ + 0.25 * l * l, loc, s), name="sc2")
        y = lsl.obs(jnp.array([0.5, 1.5]), lsl.Dist(tfd.Normal, loc=loc2, scale=sc2), name="y")
    else:
        y = lsl.obs(jnp.array([0.5, 1.5]), lsl.Dist(tfd.Normal, loc=loc, scale=s), name="y")
    model = lsl.GraphBuilder().add(y).build_model()
    kern = finite_discrete_gibbs_kernel("k", model, outcomes=list(outcomes) if explicit else None)
    iface = gs.LieselInterface(model)
    kern.set_model(iface)
    full0 = model.state
    free0 = {"probs_value": jnp.asarray(model.vars["probs"].value), "s_value": jnp.asarray(1.2), "y_value": jnp.asarray([0.5, 1.5])}
    zero = kind.endswith("zero-prob")
    if zero:
        del free0["probs_value"]             # concrete prior probabilities (one of them exactly zero), scale and data symbolic
    outs = [float(o) for o in outcomes] if explicit else ([0.0, 1.0] if kind.startswith("Bernoulli") else [float(o) for o in sorted(outcomes)])
    dt = np.asarray(model.vars["k"].value).dtype
    if any(float(o) != int(o) for o in outs):
        dt = np.dtype(np.float32)            # fractional outcomes are assigned as they are, whatever the variable was initialised with

    used = kind.endswith("used")

    def f(key, fv):
        st = iface.update_state(fv, full0)
        with stub_categorical():
            if used:
                # the kernel has been used before, at another model state (other scale, other current value of the variable): nothing of that
                # call may survive into this one
                other = iface.update_state({**{k_: v_ + 0.75 for k_, v_ in fv.items() if k_ == "s_value"}, "k": jnp.asarray(outs[-1], dtype=dt)}, full0)
                kern._transition_fn(jax.random.fold_in(key, 7), other)
            pos = kern._transition_fn(key, st)
        lps = [iface.log_prob(iface.update_state({"k": jnp.asarray(o, dtype=dt)}, st)) for o in outs]
        return dict(draw=pos["k"], lps=lps)
    key = jax.random.PRNGKey(31)
    pre = "".join(ch for ch in label if ch.isalnum())
    sfv = symlike(free0, "fd" + pre)
    dom = {}
    for c in (cells(sfv["probs_value"]) if not zero else []):
        dom[c.decl().name()] = (0.1, 0.6)
    dom[cells(sfv["s_value"])[0].decl().name()] = (0.6, 2.0)
    enc = chk.note_enc(Enc(f"finite_discrete_gibbs_kernel[{label}]", f, (key, free0), (root_key("k"), sfv), key_roots={"k": key}, domain=dom, **(dict(ext_real=True) if zero else {})))
    pr = cells(sfv["probs_value"]) if not zero else []
    hyps = [c > 0 for c in pr] + [c < 1 for c in pr] + [cells(sfv["s_value"])[0] > 0]
    obs = []

    def _ninf(x):
        return isinstance(x, NonFinite) and x.x == float("-inf")

    def g_logits(V):
        if V.ncalls("categorical") != (2 if used else 1):
            return hyps, z3.BoolVal(False)
        a_, o_ = V.call("categorical", 1 if used else 0)
        logits = cells(a_[-1])
        if len(logits) != len(outs):
            return hyps, z3.BoolVal(False)
        lps = [cells(x)[0] for x in V.out["lps"]]
        tol = z3.RealVal("1/100000")
        gs_ = []
        if zero:
            # extended reals: the impossible outcome (log-probability -inf) gets the logit -inf, every other logit is a finite real;
            # a NaN or +inf logit (e.g. from shifting by a non-finite amount) refutes the goal
            fin = [j for j in range(len(outs)) if not isinstance(lps[j], NonFinite)]
            if not fin or any(isinstance(lps[j], NonFinite) and not _ninf(lps[j]) for j in range(len(outs))):
                raise Inconclusive("the oracle's own log-probabilities are NaN / +inf")
            for j in range(len(outs)):
                if (j in fin) != (not isinstance(logits[j], NonFinite)) or (j not in fin and not _ninf(logits[j])):
                    return hyps, z3.BoolVal(False)
            for j in fin[1:]:
                d = (logits[j] - logits[fin[0]]) - (lps[j] - lps[fin[0]])
                gs_.append(z3.And(d <= tol, d >= -tol))
            return hyps, z3.And(*gs_)
        for j in range(1, len(outs)):
            d = (logits[j] - logits[0]) - (lps[j] - lps[0])
            gs_.append(z3.And(d <= tol, d >= -tol))
        return hyps, z3.And(*gs_)
    def replay_zero(ob, model, rng):
        """the real kernel, real categorical sampler (recorded), at the model's own values: no NaN / +inf logit, the impossible outcome is never drawn"""
        st = iface.update_state({k_: v_ for k_, v_ in free0.items()}, full0)
        lp = [float(np.asarray(iface.log_prob(iface.update_state({"k": jnp.asarray(o, dtype=dt)}, st)))) for o in outs]
        imp = [outs[j] for j in range(len(outs)) if lp[j] == float("-inf")]
        for sd in range(24):
            with stubs.spy() as log:
                with stub_categorical():
                    pos = kern._transition_fn(jax.random.PRNGKey(sd), st)
            lg = [np.asarray(a_[-1], dtype=float) for (nm, a_, o) in log if nm == "categorical"]
            got = float(np.asarray(pos["k"]))
            if any(np.isnan(x).any() or (x == np.inf).any() for x in lg) or got in imp:
                return dict(reproduced=True, inputs=dict(key=[0, sd], outcomes=outs, model_log_prob_at_outcomes=[repr(v) for v in lp]),
                            observed=dict(logits=[repr(float(v)) for v in lg[0]] if lg else None, drawn_value=got, impossible_outcomes=imp),
                            note="NaN / +inf logits or a zero-probability outcome drawn")
        return dict(reproduced=False, note="finite logits for the possible outcomes, -inf for the impossible one, never drawn over 24 keys")

    obs.append(Obligation(f"finite_discrete_gibbs_kernel[{label}]: categorical logits differ exactly by the model's log-probability at the outcomes they index "
                          "(draw probabilities proportional to the joint density as a function of the variable alone)", [enc], g_logits, signature=f"fd:{label}:logits", timeout_s=120, **(dict(replay=replay_zero) if zero else {})))

    def g_draw(V):
        a_, o_ = V.call("categorical", 1 if used else 0)
        idx = cells(o_[0])[0]
        d = cells(V.out["draw"])[0]
        return hyps + [idx >= 0, idx < len(outs)], z3.And(*[z3.Implies(idx == j, d == z3.RealVal(repr(float(outs[j]))) if not z3.is_int(d) else (d == int(outs[j]) if float(outs[j]) == int(outs[j]) else z3.BoolVal(False)))
                                                                for j in range(len(outs))])
    def replay_draw(ob, model, rng):
        """the real kernel with the real categorical sampler (recorded): over 24 keys the returned value must be the outcome at the drawn index"""
        st = iface.update_state({k_: v_ for k_, v_ in free0.items()}, full0)
        for sd in range(24):
            with stubs.spy() as log:
                with stub_categorical():
                    pos = kern._transition_fn(jax.random.PRNGKey(sd), st)
            idx = [int(np.asarray(o[0])) for (nm, a_, o) in log if nm == "categorical"]
            if len(idx) != 1:
                continue
            got = float(np.asarray(pos["k"]))
            if got != float(outs[idx[0]]):
                return dict(reproduced=True, inputs=dict(key=[0, sd], outcomes=outs), observed=dict(drawn_index=idx[0], returned_value=got, outcome_at_index=float(outs[idx[0]])),
                            note="the Gibbs kernel returns a value that is not the outcome it drew")
        return dict(reproduced=False, note="returned value = outcome at the drawn index for 24 keys")
    obs.append(Obligation(f"finite_discrete_gibbs_kernel[{label}]: the returned value is the outcome with the drawn index", [enc], g_draw, signature=f"fd:{label}:draw", timeout_s=120, replay=replay_draw))
    return obs, enc


def main():
    chk = Check("C13")
    obs = []
    pens = penalties()
    pn = ["RW1(3x3, rank 2)", "identity(3x3, full rank)", "2e-7 * RW1(3x3): eigenvalues below the 1e-6 tolerance, rank 2 supplied by the builder"] if chk.tier == "quick" else list(pens)
    for p in pn:
        res = chk.guarded(f"tau2:{p}:trace", f"tracing tau2_gibbs_kernel[{p}]", tau2_scenario, chk, p, pens[p])
        if res:
            obs += res[0]
            chk.validate(res[1])
    res = chk.guarded("tau2:second-smooth:trace", "tracing the tau2 kernel of a second smooth", tau2_scenario, chk, "second smooth of a two-smooth model", pens["RW1(3x3, rank 2)"], True)
    if res:
        obs += res[0]
        chk.validate(res[1])
    fds = [("FiniteDiscrete{0,1,2} from prior", "FiniteDiscrete", (0.0, 1.0, 2.0), False), ("Bernoulli from prior", "Bernoulli", (0, 1), False),
           ("Bernoulli outcomes=[1,0]", "Bernoulli", (1, 0), True), ("FiniteDiscrete outcomes=[2,0,1]", "FiniteDiscrete", (2.0, 0.0, 1.0), True),
           ("FiniteDiscrete{0,.5,1,1.5}, variable initialised with an integer", "FiniteDiscrete/int-initialised", (0.0, 0.5, 1.0, 1.5), False),
           ("FiniteDiscrete{0,1,2} whose second outcome has prior probability exactly zero (extended reals)", "FiniteDiscrete/zero-prob", (0.0, 1.0, 2.0), False),
           ("FiniteDiscrete{0,1,2}, a downstream node feeding location and scale of the response", "FiniteDiscrete/shared", (0.0, 1.0, 2.0), False),
           ("Bernoulli from prior, kernel used before at another model state", "Bernoulli/used", (0, 1), False)]
    if chk.tier == "quick":
        fds = fds[:3] + fds[4:]
    for label, kind, outcomes, explicit in fds:
        res = chk.guarded(f"fd:{label}:trace", f"tracing finite_discrete_gibbs_kernel[{label}]", fd_scenario, chk, label, kind, outcomes, explicit)
        if res:
            obs += res[0]
            chk.validate(res[1])
    chk.run(obs)
    chk.functions += ["liesel.model.distreg.tau2_gibbs_kernel (transition function)", "liesel.model.goose.finite_discrete_gibbs_kernel (transition function)", "liesel.goose.gibbs.GibbsKernel",
                      "liesel.model.distreg.DistRegBuilder.add_np_smooth", "liesel.distributions.mvn_degen.MultivariateNormalDegenerate.from_penalty", "liesel.goose.interface.LieselInterface.update_state/log_prob"]
    chk.bounds += ["coefficients, hyper-parameters a, b, the current and the two probe values of tau2, prior probabilities, likelihood scale and data: symbolic reals", "penalty matrices and outcome sets concrete (enumerated)"]
    chk.enumerated += [f"penalty {p}" for p in pn] + ["two np smooths in one model: kernel of the second smooth (traced after the first)"] + [f"outcomes {l}" for l, *_ in fds]
    chk.assume("jax.random.gamma(key, a) is distributed Gamma(a, 1) (so b/G is inverse-gamma(a, b)); jax.random.categorical draws index j with probability proportional to exp(logits_j)",
               "the model's joint density is read through LieselInterface.update_state/log_prob (C02/C03)", "real arithmetic; log/lgamma/exp uninterpreted; tolerance 1e-5 for float32 constant folding")
    return chk.finish(technique=TECH)
