"""C02 Model log-probability equals the joint log-density and decomposes as documented (Engine B)."""
import jax
import jax.numpy as jnp
import numpy as np
import z3

from .. import models as M
from ..harness import Check, Enc, Obligation, all_eq, cells, symlike

TECH = ("jaxpr of LieselInterface(model).update_state(position of all input values, state) traced together with the wrapped TFP densities called directly on the resulting values; "
        "interpreted over z3 reals (lgamma/log/exp uninterpreted); z3 decides each negated obligation; a concrete build-coherence comparison per model")


def encode(chk, name, prefix=None, share=None, literals=False):
    import liesel.goose as gs
    model = M.FAMILY[name]()
    iface = gs.LieselInterface(model)
    st0 = model.state
    strong = M.strong_names(model)
    vals0 = M.values_of(st0)
    pos0 = {k: jnp.asarray(vals0[k]) for k in strong if np.asarray(vals0[k]).dtype.kind == "f" and not M.is_concrete_name(k)}
    if literals:
        # hyper-parameters written as literals (`Dist(tfd.Normal, loc=0.0, scale=10.0)`) are ordinary value nodes: they can be assigned after the
        # build (by node name) like any other input, and the densities must follow
        pos0.update({k: jnp.asarray(vals0[k]) for k in strong if M.is_concrete_name(k) and np.asarray(vals0[k]).dtype.kind == "f" and np.ndim(vals0[k]) == 0})
    cm = iface._model
    for t in ("_model_log_lik", "_model_log_prior", "_model_log_prob"):
        if st0[t].value is None:
            chk.violation(f"{name}:state-total-missing", f"[{name}] the model state carries no value for {t}: the total is not forwarded into the state the Goose interface reads",
                          dict(reproduced=True, observed={t: None, "model property": float(np.asarray(getattr(model, t[7:])))}, note="concrete observation on the built model"))

    def f(pos):
        new = iface.update_state(pos, st0)
        out = M.values_of(new)
        return dict(out=out, ref=M.reference_log_probs(cm, out))
    pre = prefix or "".join(ch for ch in name if ch.isalnum())
    sym = symlike(pos0, pre)
    dom = {}
    for k, a in sym.items():
        for c, v in zip(cells(a), np.asarray(pos0[k]).reshape(-1)):
            v = float(v)
            dom[c.decl().name()] = (0.7 * v, 1.3 * v) if v > 0 else ((1.3 * v, 0.7 * v) if v < 0 else (-0.5, 0.5))
    enc = chk.note_enc(Enc(f"update_state[{name}]" + (" with the literal hyper-parameters assigned as well" if literals else ""), f, (pos0,), (sym,), domain=dom))
    return model, enc, sym, pos0


def sum_cells(arrs):
    tot = 0
    for a in arrs:
        for c in cells(a):
            tot = tot + c
    return tot


def obligations(name, model, enc):
    from liesel.model.nodes import Dist
    obs = []
    dists = [n for n, node in model.nodes.items() if isinstance(node, Dist) and node.at is not None and type(node).__name__ != "NoDist"]
    gb_user = {t: model.nodes[t] for t in ("_model_log_lik", "_model_log_prior", "_model_log_prob")}

    def user_src(t):
        node = gb_user[t]
        ins = node.all_input_nodes()
        # a forwarded user node: single input that is not a distribution node of the automatic sum
        if len(ins) == 1 and not isinstance(ins[0], Dist) and ins[0].name.startswith("my_"):
            return ins[0].name
        return None
    for d in dists:
        per_obs = model.nodes[d].per_obs

        def g(V, d=d, per_obs=per_obs):
            o, r = V.out["out"][d], V.out["ref"][d]
            if per_obs:
                return [], all_eq(o, r)
            return [], cells(o)[0] == sum_cells([r])
        obs.append(Obligation(f"[{name}] distribution node {d} holds the log-density of its variable's value under the distribution at the current input values", [enc], g,
                              signature=f"{name}:dist:{d}"))
    obs_d = [v.dist_node.name for v in model.vars.values() if v.has_dist and v.observed]
    par_d = [v.dist_node.name for v in model.vars.values() if v.has_dist and v.parameter]
    groups = {"_model_log_prob": dists, "_model_log_lik": obs_d, "_model_log_prior": par_d}
    label = {"_model_log_prob": "log-probability = sum over all distribution nodes", "_model_log_lik": "log-likelihood = sum over observed variables",
             "_model_log_prior": "log-prior = sum over parameter variables"}
    for t, members in groups.items():
        if model.state[t].value is None:
            continue
        src = user_src(t)
        if src is not None:
            def g(V, t=t, src=src):
                if np.shape(V.out["out"][t]) != np.shape(V.out["out"][src]):
                    return [], z3.BoolVal(False)
                return [], all_eq(V.out["out"][t], V.out["out"][src])
            obs.append(Obligation(f"[{name}] user-supplied {t[7:]} node is forwarded unchanged", [enc], g, signature=f"{name}:user:{t}"))
        else:
            def g(V, t=t, members=members):
                return [], cells(V.out["out"][t])[0] == sum_cells([V.out["ref"][m] for m in members])
            obs.append(Obligation(f"[{name}] {label[t]}", [enc], g, signature=f"{name}:total:{t}"))
    flagged_once = all((model.nodes[d].var is not None) and (model.nodes[d].var.observed != model.nodes[d].var.parameter) for d in dists)
    if flagged_once and all(user_src(t) is None for t in groups):
        def g(V):
            o = V.out["out"]
            return [], cells(o["_model_log_prob"])[0] == cells(o["_model_log_lik"])[0] + cells(o["_model_log_prior"])[0]
        obs.append(Obligation(f"[{name}] every distribution flagged exactly once => log_prob = log_lik + log_prior", [enc], g, signature=f"{name}:partition"))
    return obs


def build_coherence(chk, name, model, enc, pos0):
    """concrete: the freshly built model's cached values equal a from-scratch evaluation at its current input values"""
    out = enc.fn(pos0)["out"]
    cur = M.values_of(model.state)
    bad = []
    for k, v in out.items():
        if k in cur and not np.allclose(np.asarray(v), np.asarray(cur[k]), rtol=1e-4, atol=1e-5, equal_nan=True):
            bad.append((k, np.asarray(cur[k]).tolist(), np.asarray(v).tolist()))
    chk.extra.setdefault("build_coherence_nodes_compared", 0)
    chk.extra["build_coherence_nodes_compared"] += len(out)
    if bad:
        k, have, want = bad[0]
        chk.violation(f"{name}:build-coherence", f"[{name}] right after build, node {k} does not hold the value computed from the current inputs",
                      dict(reproduced=True, observed=dict(node=k, cached=have, recomputed=want, others=[b[0] for b in bad[1:6]]), note="concrete comparison on the built model"))


def targeted_total(chk, name):
    """auto-update off, inputs assigned, then only the total is brought up to date by name (Model.update("_model_log_prob")): the model's
    log-probability must be the joint log-density of the values now stored -- compared with the full update through the interface, which the
    obligations above tie to the TFP densities"""
    import liesel.goose as gs
    model = M.FAMILY[name]()
    m2 = M.FAMILY[name]()
    iface = gs.LieselInterface(model)
    st0 = model.state
    full2 = m2.state
    vals0 = M.values_of(st0)
    pos0 = {k: jnp.asarray(vals0[k]) for k in M.strong_names(model) if np.asarray(vals0[k]).dtype.kind == "f" and not M.is_concrete_name(k)}

    def f(pos):
        m2.state = full2
        m2.auto_update = False
        for k, v in pos.items():
            m2.nodes[k].value = v
        m2.update("_model_log_prob")
        got = m2.log_prob
        m2.auto_update = True
        return dict(got=got, want=M.values_of(iface.update_state(pos, st0))["_model_log_prob"])
    pre = "tt" + "".join(ch for ch in name if ch.isalnum())
    sym = symlike(pos0, pre)
    enc = chk.note_enc(Enc(f"auto-update off, assign, update('_model_log_prob')[{name}]", f, (pos0,), (sym,)))
    m2.state = full2
    return [Obligation(f"[{name}] with auto-update off, after assigning the inputs and Model.update('_model_log_prob'), log_prob = joint log-density of the stored values (= the fully updated model's)", [enc],
                       lambda V: ([], all_eq(V.out["got"], V.out["want"])), signature=f"{name}:targeted-total")], enc


def inplace_assignment(chk):
    """concrete history: a mutable (numpy) value is edited in place and assigned back -- the assignment is an assignment like any other,
    the totals must be those of the new values"""
    import liesel.model as lsl
    import tensorflow_probability.substrates.jax.distributions as tfd

    def build(bval):
        beta = lsl.param(np.array(bval, dtype=np.float32), lsl.Dist(tfd.Normal, loc=0.0, scale=2.0), name="beta")
        mu = lsl.Var(lsl.Calc(lambda b: jnp.asarray(M.X3) @ b, beta), name="mu")
        y = lsl.obs(jnp.asarray(M.Y3), lsl.Dist(tfd.Normal, loc=mu, scale=1.0), name="y")
        return lsl.GraphBuilder().add(y).build_model()

    def run():
        m = build([0.1, -0.2])
        v = m.vars["beta"].value
        if not isinstance(v, np.ndarray):
            return None                       # values are not stored as mutable arrays on this tree: nothing to check
        v[...] = np.array([1.5, 0.7], dtype=np.float32)
        m.vars["beta"].value = v
        ref = build([1.5, 0.7])
        return {k: (float(np.asarray(getattr(m, k))), float(np.asarray(getattr(ref, k)))) for k in ("log_prob", "log_lik", "log_prior")}
    r = chk.guarded("inplace-assignment", "numpy value edited in place and assigned back", run)
    if r:
        bad = {k: v for k, v in r.items() if abs(v[0] - v[1]) > 1e-4 * (1 + abs(v[1]))}
        if bad:
            chk.violation("inplace-assignment", "after `v = var.value; v[...] = new; var.value = v` the model's totals are not those of the new values: "
                          + ", ".join(f"{k} = {a:.4f} (from scratch {b:.4f})" for k, (a, b) in bad.items()),
                          dict(reproduced=True, inputs=dict(old=[0.1, -0.2], new=[1.5, 0.7]), observed={k: dict(model=a, from_scratch=b) for k, (a, b) in bad.items()}, note="concrete history on the real code"))
    chk.enumerated.append("history: numpy value edited in place and assigned back")


def main():
    chk = Check("C02")
    names = list(M.FAMILY) if chk.tier == "thorough" else [n for n in M.FAMILY if n not in ("DistRegBuilder(np+p smooth)",)] + ["DistRegBuilder(np+p smooth)"]
    obs = []
    encs = {}
    for name in names:
        shared = "reg" if name.startswith("regression(") else None
        model, enc, sym, pos0 = encode(chk, name, prefix=shared)
        encs[name] = (model, enc)
        obs += obligations(name, model, enc)
        build_coherence(chk, name, model, enc, pos0)
        chk.validated_points += enc.validate(chk.rng, npoints=1)
    inplace_assignment(chk)
    for name in ("regression(transformed scale)", "weak-hierarchy"):
        res = chk.guarded(f"{name}:literals:trace", f"[{name}] tracing update_state with the literal hyper-parameters in the position", encode, chk, name, "lit" + "".join(ch for ch in name if ch.isalnum()), None, True)
        if res:
            model_l, enc_l, sym_l, pos_l = res
            obs += [o for o in obligations(name + " / literal hyper-parameters assigned", model_l, enc_l)]
            chk.validated_points += enc_l.validate(chk.rng, npoints=1)
    for name in [n for n in M.FAMILY if "weak" in n or n == "regression(transformed scale)"]:
        res = chk.guarded(f"{name}:targeted-total:trace", f"[{name}] tracing the by-name update of the total", targeted_total, chk, name)
        if res:
            obs += res[0]
            chk.validated_points += res[1].validate(chk.rng, npoints=1)
    # per-observation vs summed storage: same totals
    e1, e2 = encs["regression(transformed scale)"][1], encs["regression(per_obs=False)"][1]

    def twin(Vs):
        a, b = Vs[0].out["out"], Vs[1].out["out"]
        return [], z3.And(*[cells(a[t])[0] == cells(b[t])[0] for t in ("_model_log_prob", "_model_log_lik", "_model_log_prior")])
    obs.append(Obligation("storing the response log-density per observation or summed changes none of the three totals", [e1, e2], twin, signature="per_obs-twin"))
    chk.run(obs)
    chk.functions += ["liesel.goose.interface.LieselInterface.update_state", "liesel.model.model.Model.update / state setter", "liesel.model.nodes.Dist.update / Calc.update / Var value proxies",
                      "liesel.model.model.GraphBuilder.build_model (_add_model_log_lik/_prior/_prob_node)", "liesel.model.distreg.DistRegBuilder", "liesel.model.model._reduced_sum"]
    chk.bounds += ["all input values (parameters, data, hyper-parameters) symbolic reals at the family's shapes (scalars, vectors of length 2-4, one 3x3 penalty kept concrete)", "one evaluation"]
    chk.enumerated += names
    chk.assume("the wrapped TFP distributions (and liesel's MultivariateNormalDegenerate, checked in C18) called directly are the reference densities", "real arithmetic; lgamma/log/exp uninterpreted",
               "penalty matrices, ranks and design matrices concrete", "flags read from the built model's variables")
    return chk.finish(technique=TECH)
