"""C18 Custom distributions and bijector are mathematically consistent (Engine B, real mode)."""
import ast
import inspect
import textwrap

import jax
import jax.numpy as jnp
import numpy as np
import z3

from .. import stubs
from ..harness import Check, Enc, Obligation, all_eq, cells, symlike
from ..jx2smt import NonFinite, sym_array

TECH = ("jaxprs of AlgebraicSigmoid's forward/inverse/log-det-Jacobians (and jax.grad of them), of MultivariateNormalDegenerate's constructors + log_prob + sample "
        "(eigh as a contract stub, or exact for concrete-penalty x symbolic-scale operands) and of GaussianCopula.log_prob (ndtri re-bound to an uninterpreted stub) "
        "interpreted over z3 reals; the copula's argument-validation asserts are sliced from the current source with ast and traced; z3/nlsat decides each negated obligation")


def sc(v):
    return np.array(v, dtype=object).reshape(())


# ------------------------------------------------------------------ AlgebraicSigmoid
def sigmoid_obligations(chk):
    from liesel.bijectors import AlgebraicSigmoid

    class _B:
        """the bijector through its public TFP interface (a fresh instance per call: TFP caches forward/inverse pairs per instance)"""
        _forward = staticmethod(lambda t: AlgebraicSigmoid().forward(t))
        _inverse = staticmethod(lambda t: AlgebraicSigmoid().inverse(t))
        _forward_log_det_jacobian = staticmethod(lambda t: AlgebraicSigmoid().forward_log_det_jacobian(t, event_ndims=0))
        _inverse_log_det_jacobian = staticmethod(lambda t: AlgebraicSigmoid().inverse_log_det_jacobian(t, event_ndims=0))
    b = _B
    x, y = z3.Real("as_x"), z3.Real("as_y")
    obs = []
    domx = {"as_x": (-3, 3)}
    domy = {"as_y": (-0.95, 0.95)}
    e1 = chk.note_enc(Enc("inverse(forward(x))", lambda t: b._inverse(b._forward(t)), (0.3,), (sc(x),), domain=domx))
    obs.append(Obligation("AlgebraicSigmoid: inverse(forward(x)) = x", [e1], lambda V: ([], cells(V.out)[0] == x), signature="sigmoid:inv-fwd"))
    e2 = chk.note_enc(Enc("forward(inverse(y))", lambda t: b._forward(b._inverse(t)), (0.3,), (sc(y),), domain=domy))
    obs.append(Obligation("AlgebraicSigmoid: forward(inverse(y)) = y for |y| < 1", [e2], lambda V: ([y > -1, y < 1], cells(V.out)[0] == y), signature="sigmoid:fwd-inv"))
    e3 = chk.note_enc(Enc("d forward/dx, fldj", lambda t: dict(d=jax.grad(b._forward)(t), fldj=b._forward_log_det_jacobian(t), f=b._forward(t)), (0.3,), (sc(x),), domain=domx))

    def g3(V):
        s_ = V.sqrt(1 + x * x)
        return [s_ >= 0, s_ * s_ == 1 + x * x], cells(V.out["d"])[0] * s_ * s_ * s_ == 1
    obs.append(Obligation("AlgebraicSigmoid: forward'(x) = (1+x^2)^(-3/2)  (autodiff derivative of the real forward map)", [e3], g3, signature="sigmoid:dfwd"))
    obs.append(Obligation("AlgebraicSigmoid: forward log-det-Jacobian = -3/2 log(1+x^2) = log forward'(x)", [e3],
                          lambda V: ([], cells(V.out["fldj"])[0] == -V.c(1.5) * V.log(1 + x * x)), signature="sigmoid:fldj", tactic="default"))
    obs.append(Obligation("AlgebraicSigmoid: |forward(x)| < 1", [e3], lambda V: ([], z3.And(cells(V.out["f"])[0] < 1, cells(V.out["f"])[0] > -1)), signature="sigmoid:range"))
    e4 = chk.note_enc(Enc("d inverse/dy, ildj", lambda t: dict(d=jax.grad(b._inverse)(t), ildj=b._inverse_log_det_jacobian(t)), (0.3,), (sc(y),), domain=domy))

    def g4(V):
        s_ = V.sqrt(1 - y * y)
        return [y > -1, y < 1, s_ > 0, s_ * s_ == 1 - y * y], cells(V.out["d"])[0] * s_ * s_ * s_ == 1
    obs.append(Obligation("AlgebraicSigmoid: inverse'(y) = (1-y^2)^(-3/2) for |y| < 1", [e4], g4, signature="sigmoid:dinv"))
    obs.append(Obligation("AlgebraicSigmoid: inverse log-det-Jacobian = -3/2 log(1-y^2) = log inverse'(y)", [e4],
                          lambda V: ([y > -1, y < 1], cells(V.out["ildj"])[0] == -V.c(1.5) * V.log(1 - y * y)), signature="sigmoid:ildj", tactic="default"))
    e5 = chk.note_enc(Enc("fldj(x) + ildj(forward(x))", lambda t: b._forward_log_det_jacobian(t) + b._inverse_log_det_jacobian(b._forward(t)), (0.3,), (sc(x),), domain=domx))

    def g5(V):
        return [], cells(V.out)[0] == 0
    obs.append(Obligation("AlgebraicSigmoid: fldj(x) = -ildj(forward(x))", [e5], g5, signature="sigmoid:fldj-ildj", schemas=("pos", "inv", "unit", "recip"), timeout_s=60))
    # float32: the forward log-det-Jacobian stays finite far out in the tails (|x| <= 1e6), where forward(x) itself saturates to +-1
    F = z3.Float32()
    xf = z3.FP("as_xf", F)
    ef = chk.note_enc(Enc("fldj (float32)", lambda t: b._forward_log_det_jacobian(t), (0.3,), (np.array(xf, dtype=object).reshape(()),), mode="fp32"))

    def g_fin(V):
        out = cells(V.out)[0]
        ax = []
        for a_, t_ in V.I.log_terms:        # contract of the float32 logarithm: log(+-0) = -inf; finite and |.| <= 128 on finite positive arguments; NaN on negative ones
            ax += [z3.Implies(z3.fpIsZero(a_), z3.And(z3.fpIsInf(t_), z3.fpIsNegative(t_))),
                   z3.Implies(z3.And(z3.fpGT(a_, z3.FPVal(0, F)), z3.Not(z3.fpIsInf(a_))), z3.And(z3.fpLEQ(z3.fpAbs(t_), z3.FPVal(128.0, F)), z3.Not(z3.fpIsNaN(t_)))),
                   z3.Implies(z3.fpLT(a_, z3.FPVal(0, F)), z3.fpIsNaN(t_))]
        hy = [z3.Not(z3.fpIsNaN(xf)), z3.fpLEQ(z3.fpAbs(xf), z3.FPVal(1e6, F))]
        return hy + ax, z3.And(z3.Not(z3.fpIsNaN(out)), z3.Not(z3.fpIsInf(out)))

    def replay_fin(ob, model, rng):
        from ..zeval import model_value
        xv = float(model_value(model, xf, np.float32(0))) if model is not None else 4100.0
        for cand in (xv, 5000.0, -5000.0, 1e5, 1e6):
            got = float(AlgebraicSigmoid().forward_log_det_jacobian(jnp.float32(cand), event_ndims=0))
            if not np.isfinite(got):
                return dict(reproduced=True, inputs=dict(x=cand), observed=dict(forward_log_det_jacobian=str(got), log_derivative=float(-1.5 * np.log1p(np.float64(cand) ** 2))),
                            note="forward log-det-Jacobian is not finite although the derivative of the forward map is positive")
        return dict(reproduced=False, note="finite at the solver's point and at 4 tail points")
    obs.append(Obligation("AlgebraicSigmoid (float32): the forward log-det-Jacobian is finite for every |x| <= 1e6 (no log(0) from a saturated forward value)", [ef], g_fin,
                          signature="sigmoid:fldj-finite-fp32", replay=replay_fin, timeout_s=120))
    obs[-1].probe_on_unknown = True
    chk.functions += ["liesel.bijectors.AlgebraicSigmoid forward / inverse / forward_log_det_jacobian / inverse_log_det_jacobian (public TFP interface)"]
    return obs


# ------------------------------------------------------------------ Gaussian copula
def copula_obligations(chk):
    import tensorflow_probability.substrates.jax.bijectors.normal_cdf as ncdf
    import liesel.distributions.copulas as cop
    from liesel.distributions.copulas import GaussianCopula
    obs = []
    real_ndtri = ncdf.tf.math.ndtri

    def lp_fn(r, p):
        ncdf.tf.math.ndtri = lambda q, name=None: stubs.stub("ndtri", (q,), q, real=lambda q_: real_ndtri(q_))
        try:
            return GaussianCopula(r).log_prob(p)
        finally:
            ncdf.tf.math.ndtri = real_ndtri
    rho, u, v = z3.Reals("cop_rho cop_u cop_v")
    dom = {"cop_rho": (-0.95, 0.95), "cop_u": (0.05, 0.95), "cop_v": (0.05, 0.95)}
    e = chk.note_enc(Enc("GaussianCopula.log_prob", lp_fn, (0.3, jnp.array([0.2, 0.6])), (sc(rho), np.array([u, v], dtype=object)), domain=dom))

    def closed(V):
        a_, o_ = V.call("ndtri")
        x, y = cells(o_[0])
        q = 1 - rho * rho
        form = -V.log(V.sqrt(q)) - (rho * rho * (x * x + y * y) - 2 * rho * x * y) / (2 * q)
        d = cells(V.out)[0] - form
        tol = z3.RealVal("1/100000")
        s_ = V.sqrt(q)
        return [rho > -1, rho < 1, u > 0, u < 1, v > 0, v < 1, s_ > 0, s_ * s_ == q], z3.And(d <= tol, d >= -tol), []
    obs.append(Obligation("GaussianCopula: log c(u,v;rho) = -1/2 log(1-rho^2) - (rho^2(x^2+y^2) - 2 rho x y)/(2(1-rho^2)), x = ndtri u, y = ndtri v, for every rho in (-1,1)",
                          [e], closed, signature="copula:closed-form", expand_logs=False, tol=2e-3))

    def probe(V):
        a_, o_ = V.call("ndtri")
        return [], all_eq(a_[0], np.array([u, v], dtype=object))
    obs.append(Obligation("GaussianCopula: the quantile transform is applied to (u, v) themselves", [e], probe, signature="copula:ndtri-args"))

    # scale_tril scale_tril^T = [[1, rho], [rho, 1]]
    def tril_fn(r):
        L = GaussianCopula(r).distribution.scale_tril
        return L @ L.T
    e2 = chk.note_enc(Enc("GaussianCopula scale_tril", tril_fn, (0.3,), (sc(rho),), domain=dom))

    def g2(V):
        o = V.out
        return [rho > -1, rho < 1], z3.And(o[0, 0] == 1, o[1, 1] == 1, o[0, 1] == rho, o[1, 0] == rho)
    obs.append(Obligation("GaussianCopula: base normal has unit variances and correlation rho (scale_tril scale_tril^T = [[1,rho],[rho,1]])", [e2], g2, signature="copula:scale"))

    # batched dependence: member [i, j] of the batch uses dependence[i, j] (non-square batch, all entries symbolic)
    from ..jx2smt import sym_array
    B = (2, 3)

    def tril_batch(R):
        c = GaussianCopula(R)
        L = c.distribution.scale_tril
        return dict(S=jnp.einsum("...ij,...kj->...ik", L, L), loc=jnp.asarray(c.distribution.loc) + jnp.zeros(B + (2,)))
    Rs = sym_array("cop_R", B)
    domb = {c.decl().name(): (-0.95, 0.95) for c in cells(Rs)}
    eb = chk.note_enc(Enc("GaussianCopula scale_tril, batch (2,3)", tril_batch, (jnp.linspace(-0.6, 0.7, 6).reshape(B),), (Rs,), domain=domb))

    def gb(V):
        S = V.out["S"]
        if np.shape(S) != B + (2, 2):
            return [], z3.BoolVal(False)
        rng = [z3.And(r > -1, r < 1) for r in cells(Rs)]
        return rng, z3.And(*[z3.And(S[i, j, 0, 0] == 1, S[i, j, 1, 1] == 1, S[i, j, 0, 1] == Rs[i, j], S[i, j, 1, 0] == Rs[i, j]) for i in range(B[0]) for j in range(B[1])],
                           *[c == 0 for c in cells(V.out["loc"])])
    obs.append(Obligation("GaussianCopula with a (2,3) batch of dependences: batch member [i,j] has correlation dependence[i,j] (and zero mean)", [eb], gb, signature="copula:batch"))
    for shp in (B, (2, 2), (2, 1, 2)):
        def shapes(shp=shp):
            c = GaussianCopula(jnp.full(shp, 0.3))
            return tuple(c.batch_shape), tuple(jax.eval_shape(lambda p: c.log_prob(p), jnp.zeros(shp + (2,))).shape)
        got = chk.guarded(f"copula:batch-shape:{shp}", f"GaussianCopula with batch shape {shp}", shapes)
        if got is not None and got != (shp, shp):
            chk.violation(f"copula:batch-shape:{shp}", f"GaussianCopula with dependence of shape {shp}: batch_shape / log_prob shape are {got}", dict(reproduced=True, inputs=dict(dependence_shape=list(shp)), observed=dict(batch_shape=list(got[0]), log_prob_shape=list(got[1]))))

    # argument validation: the assert statements of the constructor, sliced from the current source
    src = textwrap.dedent(inspect.getsource(GaussianCopula.__init__))
    fn = ast.parse(src).body[0]
    asserts = [n for n in ast.walk(fn) if isinstance(n, ast.Assert)]
    guarded = []
    for n in ast.walk(fn):
        if isinstance(n, ast.If) and "validate_args" in ast.unparse(n.test):
            guarded += [a for a in ast.walk(n) if isinstance(a, ast.Assert)]
    chk.extra["copula_validation_asserts"] = [ast.unparse(a.test) for a in asserts]
    if asserts:
        body = ast.Return(value=ast.List(elts=[a.test for a in asserts], ctx=ast.Load()))
        mod = ast.Module(body=[ast.FunctionDef(name="_validity", args=ast.arguments(posonlyargs=[], args=[ast.arg("dependence")], kwonlyargs=[], kw_defaults=[], defaults=[]),
                                               body=[body], decorator_list=[], type_params=[])], type_ignores=[])
        ast.fix_missing_locations(mod)
        ns = dict(vars(cop))
        exec(compile(mod, "<GaussianCopula validation slice>", "exec"), ns)
        ev = chk.note_enc(Enc("GaussianCopula argument validation (sliced asserts)", lambda r: [jnp.asarray(c) for c in ns["_validity"](r)], (0.3,), (sc(rho),), domain=dom))

        def gv(V):
            return [rho > -1, rho < 1], z3.And(*[cells(c)[0] for c in V.out])

        def replay_v(ob, model, rng):
            from ..zeval import model_value
            r = float(model_value(model, rho, 0.0))
            for cand in (r, -0.5, -0.999, 0.999):
                try:
                    GaussianCopula(np.float32(cand), validate_args=True).log_prob(jnp.array([0.3, 0.6]))
                except AssertionError as ex:
                    return dict(reproduced=True, inputs=dict(dependence=cand, validate_args=True), exception=f"AssertionError {ex}",
                                note="constructor rejects a dependence inside (-1, 1) when validate_args=True")
            return dict(reproduced=False, note="constructor accepted the solver's dependence")
        obs.append(Obligation("GaussianCopula(validate_args=True): every dependence in (-1,1) passes the constructor's assertions", [ev], gv,
                              signature="copula:validate_args", replay=replay_v))
    # concrete smoke of the validating constructor (also covers TFP's own validation) at negative and positive dependence
    for r in (-0.9, -0.5, 0.5):
        try:
            a = float(GaussianCopula(r, validate_args=True).log_prob(jnp.array([0.3, 0.6])))
            b_ = float(GaussianCopula(r, validate_args=False).log_prob(jnp.array([0.3, 0.6])))
            if not abs(a - b_) <= 1e-5 * (1 + abs(b_)):
                chk.violation("copula:validate-differs", "GaussianCopula log_prob differs with and without validate_args", dict(reproduced=True, inputs=dict(dependence=r), observed=dict(validated=a, unvalidated=b_)))
        except AssertionError as ex:
            chk.violation("copula:validate_args", "GaussianCopula(validate_args=True) rejects a dependence inside (-1, 1)", dict(reproduced=True, inputs=dict(dependence=r, validate_args=True), exception=f"AssertionError {ex}"))
    chk.functions += ["liesel.distributions.copulas.GaussianCopula.__init__ / log_prob (TFP TransformedDistribution + NormalCDF traced; ndtri stubbed)"]
    return obs


# ------------------------------------------------------------------ degenerate MVN
def penalties():
    D1 = np.diff(np.eye(3), axis=0)
    D2 = np.diff(np.eye(4), n=2, axis=0)
    return {"RW1(3x3, rank 2)": (D1.T @ D1).astype(np.float32), "identity(2x2)": np.eye(2, dtype=np.float32),
            "rank-1(2x2)": np.array([[1.0, -1.0], [-1.0, 1.0]], dtype=np.float32), "RW2(4x4, rank 2)": (D2.T @ D2).astype(np.float32)}


def mvnd_obligations(chk):
    from liesel.distributions.mvn_degen import MultivariateNormalDegenerate as MVND
    obs = []
    pens = penalties()
    names = list(pens)[:3] if chk.tier == "quick" else list(pens)
    LOG2PI = np.float32(np.log(2 * np.pi))
    for pname in names:
        Kc = pens[pname]
        n = Kc.shape[0]
        w = np.linalg.eigvalsh(Kc.astype(np.float64))
        nz = w[w > 1e-6]
        r = len(nz)
        ld = float(np.sum(np.log(nz)))
        tag = "".join(ch for ch in pname if ch.isalnum())
        var = z3.Real(f"var_{tag}")
        x, mu = sym_array(f"x_{tag}", (n,)), sym_array(f"mu_{tag}", (n,))
        dom = {f"var_{tag}": (0.2, 5.0)}
        K = jnp.asarray(Kc)

        def quad(scale, Kc=Kc, n=n, x=x, mu=mu):      # (x-mu)^T (K*scale) (x-mu)
            d = [x[i] - mu[i] for i in range(n)]
            return sum(float(Kc[i, j]) * d[i] * d[j] for i in range(n) for j in range(n)) * scale

        def mk(name, fn, closed, hyps, sig, dom=dom, extra_args=(), extra_sym=(), n=n, var=var, x=x, mu=mu, pname=pname, tag=tag):
            ex = (1.3, jnp.zeros(n) + 0.2, jnp.zeros(n)) + tuple(extra_args)
            sy = (sc(var), x, mu) + tuple(extra_sym)
            e = chk.note_enc(Enc(f"MVND[{pname}].{name}", fn, ex, sy, domain=dom))

            def goal(V, closed=closed, hyps=hyps):
                d = cells(V.out)[0] - closed(V)
                tol = z3.RealVal("1/10000")
                return hyps, z3.And(d <= tol, d >= -tol)
            obs.append(Obligation(f"MVND[{pname}]: {name} log-density = Gaussian density on the range space", [e], goal, signature=f"mvnd:{tag}:{sig}", expand_logs=True, timeout_s=120))
            return e
        form_var = lambda V, quad=quad, var=var, r=r, ld=ld: -quad(1 / var) / 2 - (r * V.c(LOG2PI) - (V.c(np.float32(ld)) - r * V.log(var))) / 2
        mk("from_penalty(var)", lambda v_, x_, m_, K=K: MVND.from_penalty(m_, v_, K).log_prob(x_), form_var, [var > 0], "from_penalty")
        form_sm = lambda V, quad=quad, var=var, r=r, ld=ld: -quad(var) / 2 - (r * V.c(LOG2PI) - (V.c(np.float32(ld)) + r * V.log(var))) / 2
        mk("from_penalty_smooth(smooth)", lambda v_, x_, m_, K=K: MVND.from_penalty_smooth(m_, v_, K).log_prob(x_), form_sm, [var > 0], "from_penalty_smooth")
        # supplied rank and (symbolic) log-pdet of the penalty
        ldv = z3.Real(f"ld_{tag}")
        form_sup = lambda V, quad=quad, var=var, r=r, ldv=ldv: -quad(1 / var) / 2 - (r * V.c(LOG2PI) - (ldv - r * V.log(var))) / 2
        mk("from_penalty(var, rank, log_pdet supplied)", lambda v_, x_, m_, l_, K=K, r=r: MVND.from_penalty(m_, v_, K, rank=r, log_pdet=l_).log_prob(x_), form_sup, [var > 0], "from_penalty_supplied",
           extra_args=(0.7,), extra_sym=(sc(ldv),))
        # plain constructor on the scaled precision: the tolerance must separate zero from non-zero eigenvalues
        lo, hi = float(nz.min()), float(nz.max())
        sep = [var > 0, var < z3.RealVal(repr(lo / 2e-6))]
        mk("__init__(prec = pen/var)", lambda v_, x_, m_, K=K: MVND(m_, K / v_).log_prob(x_), form_var, sep, "init_scaled", dom={f"var_{tag}": (0.2, 5.0)})
        # samples lie in the range space: every null vector of K is orthogonal to (sample - loc)
        null = [np.asarray(v_) for v_, wv in zip(np.linalg.eigh(Kc.astype(np.float64))[1].T, w) if wv <= 1e-6]
        key = jax.random.PRNGKey(18)
        from ..jx2smt import root_key

        def smp(k_, v_, m_, K=K):
            d = MVND(m_, K / v_)
            return d.sample(seed=k_) - m_
        es = chk.note_enc(Enc(f"MVND[{pname}].sample", smp, (key, 1.3, jnp.zeros(n)), (root_key("k"), sc(var), mu), key_roots={"k": key}, domain=dom))

        def g_range(V, null=null, n=n, sep=sep):
            s_ = cells(V.out)
            sq = [t for t in []]
            goal = [sum(float(nv[i]) * s_[i] for i in range(n)) == 0 for nv in null] or [z3.BoolVal(True)]
            d = [sum(float(nv[i]) * s_[i] for i in range(n)) for nv in null]
            tol = z3.RealVal("1/1000")
            zs = [c for dr in V.I.draws for c in cells(dr["out"])]
            bounded = [z3.And(zz <= 10, zz >= -10) for zz in zs]
            return sep + bounded, z3.And(*[z3.And(t <= tol, t >= -tol) for t in d]) if d else z3.BoolVal(True)
        if null:
            obs.append(Obligation(f"MVND[{pname}]: samples minus location are orthogonal to the null space of the precision (lie in its range space)", [es], g_range,
                                  signature=f"mvnd:{tag}:sample-range", timeout_s=120))
        # the sampler's factor S (samples = loc + S z): S S^T is the Moore-Penrose pseudo-inverse of the precision
        def spc(v_, K=K):
            S = MVND(jnp.zeros(K.shape[0]), K / v_)._sqrt_pcov
            return S @ S.T
        ep = chk.note_enc(Enc(f"MVND[{pname}]._sqrt_pcov", spc, (1.3,), (sc(var),), domain=dom))

        def g_pinv(V, Kc=Kc, n=n, var=var, sep=sep):
            C = V.out                                         # S S^T
            P = [[float(Kc[i][j]) / var for j in range(n)] for i in range(n)]
            mm = lambda A, B: [[sum(A[i][k] * B[k][j] for k in range(n)) for j in range(n)] for i in range(n)]
            Cl = [[C[i, j] for j in range(n)] for i in range(n)]
            PCP, CPC = mm(mm(P, Cl), P), mm(mm(Cl, P), Cl)
            tol = z3.RealVal("1/10000")
            gl = []
            for i in range(n):
                for j in range(n):
                    gl += [(PCP[i][j] - P[i][j]) * var <= tol, (PCP[i][j] - P[i][j]) * var >= -tol,            # P C P = P
                           (CPC[i][j] - Cl[i][j]) <= tol * var, (CPC[i][j] - Cl[i][j]) >= -tol * var,          # C P C = C
                           Cl[i][j] - Cl[j][i] <= tol * var, Cl[i][j] - Cl[j][i] >= -tol * var]                # symmetric
            return sep, z3.And(*gl)
        obs.append(Obligation(f"MVND[{pname}]: the sampler's factor S satisfies the Moore-Penrose equations, S S^T = pseudo-inverse of the precision (covariance of the samples)", [ep], g_pinv,
                              signature=f"mvnd:{tag}:pinv", timeout_s=300, tactic="default"))
    # --- batch of variances / locations / evaluation points: member b uses var[b], loc[b], x[b]
    Kb = pens["rank-1(2x2)"]
    ldb = float(np.log(2.0))
    vb, xb, mb = sym_array("var_b", (3,)), sym_array("x_b", (3, 2)), sym_array("mu_b", (3, 2))
    e_b = chk.note_enc(Enc("MVND[rank-1(2x2)].from_penalty(batch of 3 variances, rank and log-pdet supplied)",
                           lambda v_, x_, m_: MVND.from_penalty(m_, v_, jnp.asarray(Kb), rank=1, log_pdet=ldb).log_prob(x_),
                           (jnp.array([0.7, 1.3, 2.1]), jnp.arange(6.0).reshape(3, 2) * 0.1, jnp.zeros((3, 2)) + 0.2), (vb, xb, mb),
                           domain={c.decl().name(): (0.2, 5.0) for c in cells(vb)}))

    def g_batch(V):
        if np.shape(V.out) != (3,):
            return [], z3.BoolVal(False)
        goals = []
        for b in range(3):
            d_ = [xb[b, i] - mb[b, i] for i in range(2)]
            quad = sum(V.c(Kb[i, j]) * d_[i] * d_[j] for i in range(2) for j in range(2)) / vb[b]
            form = -quad / 2 - (V.c(LOG2PI) - (V.c(np.float32(ldb)) - V.log(vb[b]))) / 2
            d = V.out[b] - form
            goals += [d <= z3.RealVal("1/10000"), d >= -z3.RealVal("1/10000")]
        return [c > 0 for c in cells(vb)], z3.And(*goals)
    obs.append(Obligation("MVND: with a batch of variances, locations and evaluation points, batch member b of log_prob is the density with var[b], loc[b] at x[b]", [e_b], g_batch,
                          signature="mvnd:batch", expand_logs=True, timeout_s=120))
    # --- a precision matrix written with integer literals: location and evaluation point keep their real values
    Ki = np.array([[1, -1], [-1, 1]], dtype=np.int32)
    xi, mi = sym_array("x_int", (2,)), sym_array("mu_int", (2,))
    e_i = chk.note_enc(Enc("MVND(loc, integer-typed precision [[1,-1],[-1,1]]).log_prob", lambda x_, m_: MVND(m_, jnp.asarray(Ki)).log_prob(x_), (jnp.zeros(2) + 0.2, jnp.array([0.3, -0.4])), (xi, mi)))

    def g_int(V):
        d_ = [xi[i] - mi[i] for i in range(2)]
        quad = sum(int(Ki[i, j]) * d_[i] * d_[j] for i in range(2) for j in range(2))
        form = -quad / 2 - (V.c(LOG2PI) - V.c(np.float32(np.log(2.0)))) / 2
        d = cells(V.out)[0] - form
        return [], z3.And(d <= z3.RealVal("1/10000"), d >= -z3.RealVal("1/10000"))
    obs.append(Obligation("MVND(loc, prec) with an integer-typed precision matrix: log-density is the range-space Gaussian density at the real-valued location and evaluation point", [e_i], g_int,
                          signature="mvnd:int-precision", timeout_s=120))
    # --- a supplied rank is used as given (penalty with an eigenvalue below the 1e-6 tolerance), log-pdet not supplied
    Ks = np.diag([1.0, 0.5, 1e-7]).astype(np.float32)
    var = z3.Real("var_small")
    x3, mu3 = sym_array("x_small", (3,)), sym_array("mu_small", (3,))
    ld3 = float(np.sum(np.log(np.linalg.eigvalsh(Ks.astype(np.float64)))))
    e_s = chk.note_enc(Enc("MVND[diag(1,.5,1e-7)].from_penalty(var, rank=3 supplied)", lambda v_, x_, m_: MVND.from_penalty(m_, v_, jnp.asarray(Ks), rank=3).log_prob(x_),
                           (1.3, jnp.zeros(3) + 0.2, jnp.zeros(3)), (sc(var), x3, mu3), domain={"var_small": (0.2, 5.0)}))

    def g_small(V):
        d_ = [x3[i] - mu3[i] for i in range(3)]
        quad = sum(V.c(Ks[i, i]) * d_[i] * d_[i] for i in range(3)) / var        # V.c: exact binary value of the float32 constant
        form = -quad / 2 - (3 * V.c(LOG2PI) - (V.c(np.float32(ld3)) - 3 * V.log(var))) / 2
        d = cells(V.out)[0] - form
        tol = z3.RealVal("1/10000")
        return [var > 0], z3.And(d <= tol, d >= -tol)
    obs.append(Obligation("MVND: from_penalty uses a supplied rank as given (penalty with an eigenvalue below the tolerance; log-pdet derived from the top `rank` eigenvalues)", [e_s], g_small,
                          signature="mvnd:supplied-rank", expand_logs=True, timeout_s=120))
    # --- rank 0 supplied as a plain Python int (zero penalty: flat prior on the whole space): the density is the constant 1
    K0 = np.zeros((2, 2), dtype=np.float32)
    var0 = z3.Real("var_zero")
    x0, mu0 = sym_array("x_zero", (2,)), sym_array("mu_zero", (2,))
    for nm0, fn0 in (("from_penalty(var, zero penalty, rank=0)", lambda v_, x_, m_: MVND.from_penalty(m_, v_, jnp.asarray(K0), rank=0).log_prob(x_)),
                     ("MVND(loc, zero precision, rank=0)", lambda v_, x_, m_: MVND(m_, jnp.asarray(K0), rank=0).log_prob(x_) + 0 * v_)):
        e_0 = chk.note_enc(Enc(f"MVND[zeros(2x2)].{nm0}", fn0, (1.3, jnp.zeros(2) + 0.2, jnp.zeros(2)), (sc(var0), x0, mu0), domain={"var_zero": (0.2, 5.0)}, ext_real=True))

        def g_zero(V):
            d = cells(V.out)[0]
            if isinstance(d, NonFinite):          # extended reals: the log-density came out as -inf / nan
                return [var0 > 0], z3.BoolVal(False)
            tol = z3.RealVal("1/10000")
            return [var0 > 0], z3.And(d <= tol, d >= -tol)

        def replay_zero(ob, model, rng, fn0=fn0):
            got = float(np.asarray(fn0(1.3, jnp.asarray([0.2, -0.4]), jnp.zeros(2))))
            return dict(reproduced=not abs(got) <= 1e-4, inputs=dict(var=1.3, x=[0.2, -0.4], loc=[0.0, 0.0], rank=0), observed=dict(log_prob=repr(got), expected=0.0),
                        note="rank-0 precision: the range space is {0}, the density on it is 1")
        obs.append(Obligation(f"MVND {nm0} with the rank given as a Python int: log-density is 0 everywhere (0-dimensional range space, log-pdet 0)", [e_0], g_zero,
                              signature="mvnd:rank0:" + nm0.split("(")[0], replay=replay_zero, timeout_s=60))
    # --- float32 range: the log-pseudo-determinant is a SUM of logs (a product of eigenvalues leaves float32's range long before its log does)
    from liesel.distributions.mvn_degen import _log_pdet
    F32 = z3.Float32()
    evf = sym_array("lpd_ev", (3,), F32)
    e_lp = chk.note_enc(Enc("_log_pdet(eigenvalues (3,), rank from the tolerance) in float32", lambda ev: _log_pdet(ev), (jnp.asarray([0.0, 2.0, 3.0]),), (evf,), mode="fp32"))

    def g_lpd(V):
        logf = V.I.fn("log", F32, F32)
        one, tol = z3.FPVal(1.0, F32), z3.FPVal(float(np.float32(1e-6)), F32)
        sel = [z3.If(z3.fpGT(e_, tol), e_, one) for e_ in evf]
        want = z3.fpAdd(z3.RNE(), z3.fpAdd(z3.RNE(), logf(sel[0]), logf(sel[1])), logf(sel[2]))
        alt = z3.fpAdd(z3.RNE(), logf(sel[0]), z3.fpAdd(z3.RNE(), logf(sel[1]), logf(sel[2])))
        out = cells(V.out)[0]
        return [z3.Not(z3.fpIsNaN(e_)) for e_ in evf], z3.Or(out == want, out == alt)

    def replay_lpd(ob, model, rng):
        for ev in ([1e-3, 1e20, 1e20], [1e-20 * 1e14, 1e-18, 1e-19], [0.0, 3e19, 4e19]):
            a = np.asarray(ev, dtype=np.float32)
            got = float(np.asarray(_log_pdet(jnp.asarray(a))))
            want = float(np.sum(np.log(np.where(a > np.float32(1e-6), a, np.float32(1.0)).astype(np.float64))))
            if not (np.isfinite(got) and abs(got - want) <= 1e-3 * (1 + abs(want))):
                return dict(reproduced=True, inputs=dict(eigenvalues=[float(t) for t in a]), observed=dict(log_pdet=repr(got), sum_of_logs=want), note="float32 eigenvalues whose product leaves the float32 range")
        return dict(reproduced=False, note="log_pdet = sum of logs at three eigenvalue triples with products outside the float32 range")
    obs.append(Obligation("_log_pdet (float32): the sum of the logs of the selected eigenvalues, term by term (for every float32 eigenvalue triple, also where their product over- or underflows)",
                          [e_lp], g_lpd, signature="mvnd:log-pdet-fp32", replay=replay_lpd, timeout_s=60))
    # --- a non-default tolerance governs density AND sampler alike
    K2 = np.diag([2.0, 1e-4]).astype(np.float32)
    vt = z3.Real("var_tol")
    x2, mu2 = sym_array("x_tol", (2,)), sym_array("mu_tol", (2,))
    keyt = jax.random.PRNGKey(19)
    from ..jx2smt import root_key
    e_t = chk.note_enc(Enc("MVND(prec=diag(2,1e-4)/var, tol=1e-2).log_prob", lambda v_, x_, m_: MVND(m_, jnp.asarray(K2) / v_, tol=1e-2).log_prob(x_), (1.3, jnp.zeros(2) + 0.2, jnp.zeros(2)),
                           (sc(vt), x2, mu2), domain={"var_tol": (0.5, 2.0)}))
    e_ts = chk.note_enc(Enc("MVND(prec=diag(2,1e-4)/var, tol=1e-2).sample", lambda k_, v_, m_: MVND(m_, jnp.asarray(K2) / v_, tol=1e-2).sample(seed=k_) - m_, (keyt, 1.3, jnp.zeros(2)),
                            (root_key("k"), sc(vt), mu2), key_roots={"k": keyt}, domain={"var_tol": (0.5, 2.0)}))
    rng_t = [vt > z3.RealVal("1/50"), vt < 100]

    def g_tol(V):
        d_ = [x2[i] - mu2[i] for i in range(2)]
        quad = (2 * d_[0] * d_[0] + V.c(K2[1, 1]) * d_[1] * d_[1]) / vt
        form = -quad / 2 - (V.c(LOG2PI) - (V.log(V.c(np.float32(2.0))) - V.log(vt))) / 2
        d = cells(V.out)[0] - form
        tol = z3.RealVal("1/10000")
        return rng_t, z3.And(d <= tol, d >= -tol)
    obs.append(Obligation("MVND(tol=1e-2): rank and log-pdet count only eigenvalues above the user's tolerance", [e_t], g_tol, signature="mvnd:tol-density", expand_logs=True, timeout_s=120))

    def g_tol_s(V):
        s_ = cells(V.out)
        zs = [c for dr in V.I.draws for c in cells(dr["out"])]
        tol = z3.RealVal("1/1000")
        return rng_t + [z3.And(zz <= 10, zz >= -10) for zz in zs], z3.And(s_[1] <= tol, s_[1] >= -tol)
    obs.append(Obligation("MVND(tol=1e-2): samples have no component along a direction the user's tolerance declares null (sampler and density use the same tolerance)", [e_ts], g_tol_s,
                          signature="mvnd:tol-sample", timeout_s=120))
    # general symbolic precision (n = 2): null-space invariance over the eigh contract
    n = 2
    P = np.empty((n, n), dtype=object)
    for i in range(n):
        for j in range(n):
            P[i, j] = z3.Real(f"P_{min(i, j)}{max(i, j)}")
    x, mu, v = sym_array("nx", (n,)), sym_array("nm", (n,)), sym_array("nv", (n,))
    exP = jnp.array([[2.0, -1.0], [-1.0, 2.0]])
    e = chk.note_enc(Enc("MVND(loc, P).log_prob at x and x+v (n=2, symbolic P)", lambda x_, v_, m_, P_: dict(a=MVND(m_, P_).log_prob(x_), b=MVND(m_, P_).log_prob(x_ + v_)),
                         (jnp.zeros(n), jnp.zeros(n), jnp.zeros(n), exP), (x, v, mu, P)))

    def g_null(V):
        hy = [sum(P[i, j] * v[j] for j in range(n)) == 0 for i in range(n)]
        return hy, cells(V.out["a"])[0] == cells(V.out["b"])[0]
    obs.append(Obligation("MVND: log p(x + v) = log p(x) for every null vector v of an arbitrary symmetric precision (n = 2)", [e], g_null, signature="mvnd:null-invariance", timeout_s=600, tactic="nlsat"))
    chk.functions += ["liesel.distributions.mvn_degen.MultivariateNormalDegenerate.__init__/from_penalty/from_penalty_smooth/_log_prob/_sample_n/_sqrt_pcov/rank/log_pdet", "mvn_degen._rank", "mvn_degen._log_pdet"]
    chk.enumerated += [f"penalty {p}" for p in names]
    return obs


def main():
    chk = Check("C18")
    obs = sigmoid_obligations(chk) + copula_obligations(chk) + mvnd_obligations(chk)
    for e in chk.encs:
        if e.name.endswith(".sample"):
            continue        # eigenvectors are unique only up to sign/rotation: sample values are not comparable point-wise, the obligations are invariant
        try:
            chk.validated_points += e.validate(chk.rng, npoints=1)
        except Exception as ex:
            if "translator validation mismatch" in str(ex):
                chk.harness_error(f"validate:{e.name}", str(ex))
    chk.run(obs)
    chk.bounds += ["scalar x, y; rho in (-1,1); (u,v) in the open unit square", "degenerate MVN: concrete penalty matrices (n <= 4) with symbolic variance / smoothing parameter, evaluation point and location; symbolic symmetric precision for n = 2",
                   "sample obligations: standard normal draws bounded by |z| <= 10 (tolerance 1e-3 for float32 eigenvector tables)"]
    chk.assume("real arithmetic; sqrt/log/exp uninterpreted with defining axioms; log of products/quotients expanded where the factors are proven positive",
               "ndtri is an arbitrary function (uniform marginals are an integral statement: outside the claim)",
               "eigh(A): orthonormal V, ascending w, A V = V diag w; for A = K*s with concrete K and scalar s > 0: (V_K, w_K * s)",
               "constructor agreement through __init__(pen/var) only where the 1e-6 tolerance separates zero from non-zero scaled eigenvalues (var < min eig / 2e-6)",
               "float32 constant folding: closed forms compared up to 1e-4 / 1e-5")
    return chk.finish(technique=TECH)
