"""C19 Error and sample bookkeeping in results and summaries is exact (Engine C: dynamic symbolic execution; reduced claim).

Stage 1 (solver, all error-code patterns): the real EpochChainManager -> SamplingResults.get_error_log (all / posterior only) ->
summary_m._make_error_summary -> Summary.__init__ bookkeeping run on proxy arrays whose error codes are unbounded symbolic integers;
every feasible Python path is explored and z3 decides the counting postcondition on each.
Stage 2 (solver, all counts): the real Summary._error_df(per_chain=True) executed by pandas on opaque z3-term counts and sample sizes;
z3 proves every cell of the resulting table.
Stage 3 (concrete companions, not solver-decided): the aggregated table (per_chain=False), pickling and the ArviZ conversion."""
import io
import itertools
import json
import multiprocessing as mp
import os
import pickle
import tempfile
import time
import warnings

import numpy as np
import z3

from .. import dse
from ..harness import Check, Result

TECH = ("dynamic symbolic execution of the real SamplingResults.get_error_log / summary_m._make_error_summary / Summary.__init__ bookkeeping on proxy arrays of unbounded symbolic "
        "error codes (every feasible Python path explored by re-execution; z3 decides path feasibility and the counting postcondition on each path; counterexamples replayed on real numpy); "
        "the real Summary._error_df(per_chain=True) executed by pandas on opaque z3-term counts with z3 proving each cell; concrete companions for per_chain=False, pickle and ArviZ")

WARM = (1, 2, 3)        # FAST_ADAPTATION, SLOW_ADAPTATION, BURNIN
POST = 4


class Cfg:
    def __init__(self, name, C, epochs, chunk=1, K=1, classes=True, minimize=False):
        self.name, self.C, self.epochs, self.chunk, self.K, self.classes = name, C, list(epochs), chunk, K, classes
        self.minimize = minimize          # Engine(minimize_transition_infos=True): every info goes through its class's minimize() before it is stored
        self.T = sum(d for _, d, _ in epochs)
        self.post_cols = []
        g = 0
        for ty, d, th in epochs:
            if ty == POST:
                self.post_cols += list(range(g, g + d))
            g += d

    def to_json(self):
        return dict(name=self.name, C=self.C, epochs=self.epochs, chunk=self.chunk, K=self.K, classes=self.classes, minimize=self.minimize)

    @classmethod
    def from_json(cls, d):
        return cls(d["name"], d["C"], [tuple(e) for e in d["epochs"]], d["chunk"], d["K"], d["classes"], d.get("minimize", False))


IDENTS = ["kz", "ka", "km"]       # kernel identifiers in the order the kernels are added: deliberately not alphabetical


def ident(cfg, k):
    return IDENTS[k] if cfg.K > 1 else "k0"


class Msg:
    """symbolic error book entry: the message of code `code` in kernel `kernel`'s book"""

    def __init__(self, kernel, code):
        self.kernel, self.code = kernel, code


class SymBook:
    def __init__(self, kernel):
        self.kernel = kernel

    def __getitem__(self, ec):
        return Msg(self.kernel, ec)


def kernel_classes(cfg, symbolic, codes_present=()):
    out = {}
    for k in range(cfg.K):
        book = SymBook(k) if symbolic else {0: "no errors", **{int(c): f"kernel {k} message {int(c)}" for c in codes_present}}
        out[ident(cfg, k)] = type(f"Kern{k}", (), {"error_book": book})
    return out


def build_results(cfg, codes, mk, classes):
    """the storage the Engine fills: one epoch chain per epoch, transition infos un-thinned, positions thinned; chunks of cfg.chunk iterations"""
    from liesel.goose.chain import EpochChainManager
    from liesel.goose.engine import SamplingResults
    from liesel.goose.epoch import EpochConfig, EpochType
    from liesel.goose.kernel import DefaultTransitionInfo
    from liesel.option import Option
    pos, ti = EpochChainManager(apply_thinning=True), EpochChainManager()
    init = EpochConfig(EpochType.INITIAL_VALUES, 1, 1, None)
    pos.advance_epoch(init)
    ti.advance_epoch(init)
    pos.append({"x": np.asarray([[-1.0] for c in range(cfg.C)])})
    g = 0
    for ty, d, th in cfg.epochs:
        ec = EpochConfig(EpochType(ty), d, th, None)
        pos.advance_epoch(ec)
        ti.advance_epoch(ec)
        for start in range(0, d, cfg.chunk):
            cols = list(range(g + start, g + min(start + cfg.chunk, d)))
            z = np.zeros((cfg.C, len(cols)))
            infos = {ident(cfg, k): DefaultTransitionInfo(error_code=mk([[codes[k][c][t] for t in cols] for c in range(cfg.C)]), acceptance_prob=z, position_moved=z)
                     for k in range(cfg.K)}
            if cfg.minimize:
                infos = {k_: v_.minimize() for k_, v_ in infos.items()}
            ti.append(infos)
            pos.append({"x": np.asarray([[100.0 * c + t for t in cols] for c in range(cfg.C)])})
        g += d
    return SamplingResults(positions=pos, transition_infos=ti, generated_quantities=Option(None), tuning_infos=Option(None), kernel_states=Option(None),
                           full_model_states=Option(None), kernel_classes=Option(classes if cfg.classes else None), kernels_by_pos_key=Option({"x": ident(cfg, 0)}))


_PATCHED = []


def patch_env():
    """environment stubs: pytree's `jnp.concatenate` handles proxy arrays (and plain numpy arrays without XLA); the posterior
    statistics (arviz) computed by Summary.__init__ are not the subject and are replaced by an empty dict"""
    if _PATCHED:
        return
    import jax.numpy as jnp
    import liesel.goose.pytree as pytree
    import liesel.goose.summary_m as sm

    class Shim(dse.JnpShim):
        def concatenate(self, xs, axis=0, **kw):
            xs = list(xs)
            if all(isinstance(x, np.ndarray) for x in xs):
                return np.concatenate(xs, axis=axis)
            return super().concatenate(xs, axis=axis, **kw)
    pytree.jnp = Shim(jnp)
    import liesel.goose.kernel as kmod
    if hasattr(kmod, "jnp"):             # whatever array module the info classes use sees the proxy arrays as well
        kmod.jnp = Shim(kmod.jnp)
    sm._create_quantity_dict = lambda *a, **k: {}
    _PATCHED.append(True)


def pipeline(cfg, codes, mk, classes):
    from liesel.goose.summary_m import Summary
    patch_env()
    res = build_results(cfg, codes, mk, classes)
    sm = Summary(res)
    return res, sm, res.get_error_log(False).unwrap(), res.get_error_log(True)


def expected_sample_info(cfg):
    stored_post = 0
    for ty, d, th in cfg.epochs:
        if ty == POST:
            stored_post += sum(1 for j in range(1, d + 1) if j % th == 0)
    return dict(num_chains=cfg.C, sample_size_per_chain=stored_post, warmup_size_per_chain=sum(d for ty, d, th in cfg.epochs if ty in WARM))


# ------------------------------------------------------------------------------------------------ stage 1: symbolic paths
def code_consts(cfg):
    return [[[z3.Int(f"code_k{k}_c{c}_t{t}") for t in range(cfg.T)] for c in range(cfg.C)] for k in range(cfg.K)]


def _zi(x):
    return dse._as_int(dse._ze(x))


def structural(ok, what):
    if not ok:
        raise AssertionError(what)


def goal_for_path(cfg, Z, sm, log_all, log_post):
    """z3 formula: the error log, the per-code counts and the sample info are exact (free constant cq_k = an arbitrary code)"""
    parts = []
    has_post = bool(cfg.post_cols)
    idents = sorted(ident(cfg, k) for k in range(cfg.K))
    structural(sorted(sm.error_summary) == idents, f"kernels in the summary: {sorted(sm.error_summary)}")
    structural(sorted(log_all) == idents, f"kernels in the error log: {sorted(log_all)}")
    if has_post:
        structural(log_post.is_some() and sorted(log_post.unwrap()) == idents, "posterior error log present for every kernel")
    else:
        structural(not log_post.is_some(), "no posterior epoch => no posterior error log")
    for k in range(cfg.K):
        idk = ident(cfg, k)
        code = Z[k]
        cq = z3.Int(f"cq_{k}")
        cells = [code[c][t] for c in range(cfg.C) for t in range(cfg.T)]
        present = z3.Or(*[x == cq for x in cells])
        items = list(sm.error_summary[idk].items())
        km = [_zi(key) == cq for key, _ in items]
        parts.append((z3.And(cq != 0, present)) == (z3.Or(*km) if km else z3.BoolVal(False)))
        if km:
            parts.append(z3.Sum(*[z3.If(m, 1, 0) for m in km]) <= 1)
        for (key, s), m in zip(items, km):
            structural(len(s.count_per_chain) == cfg.C, f"count_per_chain has {len(s.count_per_chain)} entries for {cfg.C} chains")
            want = [z3.Sum(*[z3.If(code[c][t] == cq, 1, 0) for t in range(cfg.T)]) for c in range(cfg.C)]
            body = [_zi(s.error_code) == cq] + [_zi(x) == w for x, w in zip(list(s.count_per_chain), want)]
            if cfg.classes:
                structural(isinstance(s.error_msg, Msg) and s.error_msg.kernel == k, f"message of kernel {idk!r} does not come from that kernel's own error book")
                body.append(_zi(s.error_msg.code) == cq)
            else:
                structural(s.error_msg == "", f"message {s.error_msg!r} although no kernel class is known")
            if has_post:
                structural(s.count_per_chain_posterior is not None and len(s.count_per_chain_posterior) == cfg.C, "posterior counts per chain")
                wantp = [z3.Sum(*[z3.If(code[c][t] == cq, 1, 0) for t in cfg.post_cols]) if cfg.post_cols else z3.IntVal(0) for c in range(cfg.C)]
                body += [_zi(x) == w for x, w in zip(list(s.count_per_chain_posterior), wantp)]
            else:
                structural(s.count_per_chain_posterior is None, "posterior counts without a posterior epoch")
            parts.append(z3.Implies(m, z3.And(*body)))
        # the error log: exactly the transitions with a non-zero code in some chain, with their codes
        for log, cols in ((log_all, list(range(cfg.T))),) + (((log_post.unwrap(), cfg.post_cols),) if has_post else ()):
            kel = log[idk]
            structural(kel.kernel_ident == idk, "kernel identifier of the log entry")
            if cfg.classes:
                structural(kel.kernel_cls.is_some() and kel.kernel_cls.unwrap().__name__ == f"Kern{k}", f"the log entry of kernel {idk!r} carries another kernel's class")
            tr = [int(v) for v in list(kel.transition)]
            structural(tr == sorted(set(tr)) and all(0 <= v < len(cols) for v in tr), f"logged transitions {tr}")
            structural(tuple(kel.error_codes.shape) == (cfg.C, len(tr)), f"logged codes have shape {tuple(kel.error_codes.shape)}")
            for j, t in enumerate(cols):
                parts.append(z3.BoolVal(j in tr) == z3.Or(*[code[c][t] != 0 for c in range(cfg.C)]))
            for jj, j in enumerate(tr):
                for c in range(cfg.C):
                    parts.append(_zi(kel.error_codes[c, jj]) == code[c][cols[j]])
    si = {k: int(v) for k, v in sm.sample_info.items()}
    structural(si == expected_sample_info(cfg), f"sample_info {si} but stored: {expected_sample_info(cfg)}")
    return z3.And(*parts)


def make_run(cfg):
    Z = code_consts(cfg)
    codes = [[[dse.SInt(x) for x in row] for row in kern] for kern in Z]
    classes = kernel_classes(cfg, True)
    allc = [x for kern in Z for row in kern for x in row]

    def run(path):
        try:
            res, sm, log_all, log_post = pipeline(cfg, codes, dse.FA.rows, classes)
            goal = goal_for_path(cfg, Z, sm, log_all, log_post)
        except dse.Infeasible:
            raise
        except dse.Unsupported:
            raise
        except Exception as ex:      # the code under test (or a structural fact) failed on this path: any model of the path condition is a counterexample
            v, m = path.valid(z3.BoolVal(False))
            if v != "sat":
                raise
            return dict(kind="exception", detail=f"{type(ex).__name__}: {ex}", codes=model_codes(cfg, Z, m))
        v, m = path.valid(goal)
        if v == "unsat":
            return None
        if v == "sat":
            return dict(kind="postcondition", detail="counts / log / sample info differ from the stored transitions", codes=model_codes(cfg, Z, m),
                        probe=[int(str(m.eval(z3.Int(f"cq_{k}"), model_completion=True))) for k in range(cfg.K)])
        raise dse.Unsupported("z3 answered unknown on a postcondition")
    return run


def model_codes(cfg, Z, m):
    return [[[int(str(m.eval(Z[k][c][t], model_completion=True))) for t in range(cfg.T)] for c in range(cfg.C)] for k in range(cfg.K)]


def worker(task):
    cfgj, prefixes, budget_s = task
    warnings.filterwarnings("ignore")
    cfg = Cfg.from_json(cfgj)
    t0 = time.time()
    try:
        stats, cex, complete = dse.explore(make_run(cfg), prefixes=prefixes, deadline=t0 + budget_s)
        return dict(cfg=cfg.name, paths=stats.paths, queries=stats.queries, solver_s=stats.solver_s, depth=stats.max_depth, cex=cex, complete=complete, error=None, wall=time.time() - t0)
    except Exception as ex:
        import traceback
        return dict(cfg=cfg.name, paths=0, queries=0, solver_s=0.0, depth=0, cex=[], complete=False, error=f"{type(ex).__name__}: {ex} | {traceback.format_exc()[-600:]}", wall=time.time() - t0)


# ------------------------------------------------------------------------------------------------ concrete oracle / replay / validation
def concrete_oracle(cfg, codes):
    """error summary, logs and sample info computed directly from the stored code pattern (plain Python)"""
    out = dict(summary={}, log_all={}, log_post={})
    for k in range(cfg.K):
        arr = codes[k]
        present = sorted({v for row in arr for v in row if v != 0})
        out["summary"][ident(cfg, k)] = {c: dict(total=[sum(1 for t in range(cfg.T) if arr[ch][t] == c) for ch in range(cfg.C)],
                                           posterior=[sum(1 for t in cfg.post_cols if arr[ch][t] == c) for ch in range(cfg.C)] if cfg.post_cols else None) for c in present}
        for nm, cols in (("log_all", list(range(cfg.T))), ("log_post", cfg.post_cols)):
            tr = [j for j, t in enumerate(cols) if any(arr[ch][t] != 0 for ch in range(cfg.C))]
            out[nm][ident(cfg, k)] = dict(transition=tr, codes=[[arr[ch][cols[j]] for j in tr] for ch in range(cfg.C)])
    out["sample_info"] = expected_sample_info(cfg)
    return out


def observed(cfg, sm, log_all, log_post, msg_of):
    out = dict(summary={}, log_all={}, log_post={})
    for ident, d in sm.error_summary.items():
        out["summary"][ident] = {}
        for key, s in d.items():
            out["summary"][ident][int(key)] = dict(total=[int(v) for v in list(s.count_per_chain)], posterior=None if s.count_per_chain_posterior is None else [int(v) for v in list(s.count_per_chain_posterior)],
                                                   code=int(s.error_code), msg=msg_of(s.error_msg))
    for nm, log in (("log_all", log_all), ("log_post", log_post.unwrap() if log_post.is_some() else {})):
        for ident, kel in log.items():
            ec = kel.error_codes
            out[nm][ident] = dict(transition=[int(v) for v in list(kel.transition)], codes=[[int(ec[c, j]) for j in range(ec.shape[1])] for c in range(ec.shape[0])])
    out["sample_info"] = {k: int(v) for k, v in sm.sample_info.items()}
    return out


def compare(cfg, want, got, book_msg):
    diffs = []
    for k in range(cfg.K):
        idk = ident(cfg, k)
        w, g = want["summary"][idk], got["summary"].get(idk, {})
        if sorted(w) != sorted(g):
            diffs.append(f"{idk}: codes in the summary {sorted(g)} but stored non-zero codes {sorted(w)}")
            continue
        for c in w:
            if g[c]["total"] != w[c]["total"] or g[c]["posterior"] != w[c]["posterior"] or g[c]["code"] != c:
                diffs.append(f"{idk} code {c}: summary total/posterior {g[c]['total']}/{g[c]['posterior']} but stored {w[c]['total']}/{w[c]['posterior']}")
            if g[c]["msg"] != (book_msg(k, c) if cfg.classes else ""):
                diffs.append(f"{idk} code {c}: message {g[c]['msg']!r} but the kernel's error book says {book_msg(k, c)!r}")
        for nm in ("log_all", "log_post"):
            if cfg.post_cols or nm == "log_all":
                if got[nm].get(idk) != want[nm][idk]:
                    diffs.append(f"{idk} {nm}: {got[nm].get(idk)} but stored {want[nm][idk]}")
    if got["sample_info"] != want["sample_info"]:
        diffs.append(f"sample_info {got['sample_info']} but stored {want['sample_info']}")
    return diffs


def run_real(cfg, codes):
    """the same pipeline on real numpy arrays"""
    present = sorted({v for kern in codes for row in kern for v in row})
    classes = kernel_classes(cfg, False, present)
    res, sm, log_all, log_post = pipeline(cfg, codes, lambda rows: np.asarray(rows, dtype=np.int64).reshape(cfg.C, -1), classes)
    return observed(cfg, sm, log_all, log_post, lambda m: m)


def replay_codes(cfg, codes):
    try:
        got = run_real(cfg, codes)
    except Exception as ex:
        return dict(reproduced=True, inputs=dict(config=cfg.to_json(), error_codes=codes), exception=f"{type(ex).__name__}: {ex}")
    diffs = compare(cfg, concrete_oracle(cfg, codes), got, lambda k, c: f"kernel {k} message {c}")
    return dict(reproduced=bool(diffs), inputs=dict(config=cfg.to_json(), error_codes=codes), observed=dict(differences=diffs[:6], summary=got["summary"], sample_info=got["sample_info"]),
                note="real numpy run of get_error_log / _make_error_summary / Summary bookkeeping compared with direct counting")


def validate_proxy(cfg, rng, n):
    """translator validation: proxy arrays holding concrete ints must behave like numpy arrays in this pipeline"""
    bad = []
    for _ in range(n):
        codes = [[[int(v) for v in rng.choice([0, 0, 1, 2, 90, -3], size=cfg.T)] for c in range(cfg.C)] for k in range(cfg.K)]
        real = run_real(cfg, codes)
        present = sorted({v for kern in codes for row in kern for v in row})
        classes = kernel_classes(cfg, False, present)
        try:
            res, sm, la, lp = pipeline(cfg, codes, dse.FA.rows, classes)
            fake = observed(cfg, sm, la, lp, lambda m: m)
        except Exception as ex:        # numpy ran this pattern, the proxy could not: a deficiency of the proxy, not of the code under test
            bad.append(dict(codes=codes, proxy_error=f"{type(ex).__name__}: {ex}"))
            break
        if real != fake:
            bad.append(dict(codes=codes, numpy=real, proxy=fake))
    return bad


# ------------------------------------------------------------------------------------------------ stage 2: the data frame
class S:
    """opaque z3 term carried through pandas (object dtype); arithmetic builds terms"""
    __array_priority__ = 1000

    def __init__(self, e):
        self.e = e

    @staticmethod
    def _t(o):
        return o.e if isinstance(o, S) else (z3.RealVal(o) if isinstance(o, float) else z3.IntVal(int(o)))

    def __sub__(self, o): return S(self.e - S._t(o))
    def __rsub__(self, o): return S(S._t(o) - self.e)
    def __add__(self, o): return S(self.e + S._t(o))
    __radd__ = __add__

    def __truediv__(self, o):
        a, b = self.e, S._t(o)
        return S((z3.ToReal(a) if z3.is_int(a) else a) / (z3.ToReal(b) if z3.is_int(b) else b))

    def __rtruediv__(self, o):
        a, b = S._t(o), self.e
        return S((z3.ToReal(a) if z3.is_int(a) else a) / (z3.ToReal(b) if z3.is_int(b) else b))

    def __repr__(self):
        return f"S({self.e})"


def _objarr(xs):
    a = np.empty(len(xs), dtype=object)
    for i, x in enumerate(xs):
        a[i] = x
    return a


def frame_obligations(chk, C, layout, shared_msg=False):
    """layout: {kernel: [codes]} ; counts and the two sample sizes are symbolic; z3 proves every cell of Summary._error_df(per_chain=True)"""
    from liesel.goose.summary_m import ErrorSummaryForOneCode, Summary
    tot = {(k, c, ch): z3.Int(f"tot_{k}_{c}_{ch}") for k, cs in layout.items() for c in cs for ch in range(C)}
    post = {(k, c, ch): z3.Int(f"post_{k}_{c}_{ch}") for k, cs in layout.items() for c in cs for ch in range(C)}
    wsz, psz = z3.Int("warmup_size"), z3.Int("posterior_size")
    msg = (lambda k, c: f"msg {c}") if shared_msg else (lambda k, c: f"{k} msg {c}")
    es = {k: {c: ErrorSummaryForOneCode(c, msg(k, c), _objarr([S(tot[k, c, ch]) for ch in range(C)]), _objarr([S(post[k, c, ch]) for ch in range(C)])) for c in cs} for k, cs in layout.items()}
    sm = object.__new__(Summary)
    sm.error_summary = es
    sm.sample_info = dict(num_chains=C, sample_size_per_chain=S(psz), warmup_size_per_chain=S(wsz))
    name = f"Summary._error_df(per_chain=True), {C} chains, kernels/codes {layout}" + (" (kernels of one class: same message for the same code)" if shared_msg else "")

    class _Ob:
        pass
    _Ob.name = f"{name}: one row per kernel x code x phase x chain; count = total - posterior (warmup) or posterior; relative = count / that phase's sample size -- for all counts and sizes"
    _Ob.signature = f"frame:{C}:{sorted(layout)}" + (":shared" if shared_msg else "")
    t0 = time.time()
    df = chk.guarded(_Ob.signature, name, lambda: sm._error_df(per_chain=True))
    if df is None:
        return
    rows = {tuple(idx): (r["count"], r["relative"]) for idx, r in df.iterrows()}
    want = {}
    for k, cs in layout.items():
        for c in cs:
            for ch in range(C):
                want[(k, c, msg(k, c), "warmup", ch)] = (tot[k, c, ch] - post[k, c, ch], z3.ToReal(tot[k, c, ch] - post[k, c, ch]) / z3.ToReal(wsz))
                want[(k, c, msg(k, c), "posterior", ch)] = (post[k, c, ch], z3.ToReal(post[k, c, ch]) / z3.ToReal(psz))
    problems = []
    if set(rows) != set(want):
        problems.append(f"rows {sorted(map(str, set(rows) ^ set(want)))[:4]} missing or unexpected")
    goal = []
    for key in want:
        if key in rows:
            cnt, rel = rows[key]
            if not isinstance(cnt, S) or not isinstance(rel, S):
                problems.append(f"cell {key} is not derived from the counts: {cnt!r} / {rel!r}")
                continue
            goal.append(cnt.e == want[key][0])
            goal.append(rel.e == want[key][1])
    s = z3.Solver()
    s.add(wsz > 0, psz > 0)
    s.add(z3.Not(z3.And(*goal)) if goal else z3.BoolVal(False))
    r = s.check() if not problems else z3.sat
    secs = time.time() - t0
    if r == z3.unsat:
        chk.record(Result(_Ob, "unsat", secs, {"tactic": "z3 (LRA) over pandas-carried terms"}))
        return
    if r == z3.unknown:
        chk.record(Result(_Ob, "unknown", secs, {}))
        return
    # replay with concrete numbers through the same real method
    vals = {}
    m = s.model() if not problems else None
    rng = np.random.default_rng(5)
    for key in tot:
        vals[key] = (int(rng.integers(3, 9)), int(rng.integers(0, 3)))
        if m is not None:
            vals[key] = (int(str(m.eval(tot[key], model_completion=True))), int(str(m.eval(post[key], model_completion=True))))
    w_, p_ = (int(str(m.eval(wsz, model_completion=True))), int(str(m.eval(psz, model_completion=True)))) if m is not None else (20, 10)
    es2 = {k: {c: ErrorSummaryForOneCode(c, msg(k, c), np.array([vals[k, c, ch][0] for ch in range(C)]), np.array([vals[k, c, ch][1] for ch in range(C)])) for c in cs} for k, cs in layout.items()}
    sm2 = object.__new__(Summary)
    sm2.error_summary, sm2.sample_info = es2, dict(num_chains=C, sample_size_per_chain=p_, warmup_size_per_chain=w_)
    diffs = []
    try:
        df2 = sm2._error_df(per_chain=True)
        got = {tuple(idx): (float(r_["count"]), float(r_["relative"])) for idx, r_ in df2.iterrows()}
        for k, cs in layout.items():
            for c in cs:
                for ch in range(C):
                    t_, po = vals[k, c, ch]
                    for ph, cnt, sz in (("warmup", t_ - po, w_), ("posterior", po, p_)):
                        g = got.get((k, c, msg(k, c), ph, ch))
                        if g is None or g[0] != cnt or abs(g[1] - cnt / sz) > 1e-9:
                            diffs.append(f"row {(k, c, ph, ch)}: table has {g}, stored count {cnt} of {sz}")
    except Exception as ex:
        diffs.append(f"{type(ex).__name__}: {ex}")
    chk.record(Result(_Ob, "sat", secs, {}, replay=dict(reproduced=bool(diffs), inputs=dict(counts={str(k): v for k, v in vals.items()}, warmup_size=w_, posterior_size=p_),
                                                     observed=dict(differences=diffs[:6], problems=problems[:4]), note="concrete counts through the real Summary._error_df(per_chain=True)")))


# ------------------------------------------------------------------------------------------------ stage 3: concrete companions
def companions(chk):
    """not solver-decided: aggregated table on concrete counts; pickle and ArviZ round trips of a real engine run"""
    from liesel.goose.summary_m import ErrorSummaryForOneCode, Summary
    rng = np.random.default_rng(chk.seed + 19)
    n = 0
    for trial in range(4):
        C = int(rng.integers(1, 4))
        layout = {"ka": [1, 90], "kb": [2]}
        tot = {(k, c): rng.integers(2, 9, size=C) for k, cs in layout.items() for c in cs}
        post = {(k, c): rng.integers(0, 3, size=C) for k, cs in layout.items() for c in cs}
        w_, p_ = int(rng.integers(10, 30)), int(rng.integers(5, 20))
        sm = object.__new__(Summary)
        sm.error_summary = {k: {c: ErrorSummaryForOneCode(c, f"m{c}", tot[k, c], post[k, c]) for c in cs} for k, cs in layout.items()}
        sm.sample_info = dict(num_chains=C, sample_size_per_chain=p_, warmup_size_per_chain=w_)

        def agg():
            return sm._error_df(per_chain=False)
        df = chk.guarded(f"frame-aggregated:{trial}", "Summary._error_df(per_chain=False)", agg)
        if df is None:
            continue
        got = {tuple(idx): (float(r["count"]), float(r["relative"])) for idx, r in df.iterrows()}
        diffs = []
        for k, cs in layout.items():
            for c in cs:
                for ph, cnt, sz in (("warmup", tot[k, c] - post[k, c], w_), ("posterior", post[k, c], p_)):
                    g = got.get((k, c, f"m{c}", ph))
                    if g is None or g[0] != float(cnt.sum()) or abs(g[1] - float(np.mean(cnt / sz))) > 1e-9:
                        diffs.append(f"{(k, c, ph)}: table {g}, stored sum {int(cnt.sum())}, mean relative {float(np.mean(cnt / sz)):.4f}")
        if len(got) != 2 * sum(len(cs) for cs in layout.values()):
            diffs.append(f"{len(got)} rows")
        if diffs:
            chk.violation("frame-aggregated", "Summary._error_df(per_chain=False) does not aggregate the per-chain counts (sum) and relative frequencies (mean)",
                          dict(reproduced=True, inputs=dict(total={str(k): v.tolist() for k, v in tot.items()}, posterior={str(k): v.tolist() for k, v in post.items()}, warmup_size=w_, posterior_size=p_),
                               observed=dict(differences=diffs[:5]), note="concrete companion (not solver-decided)"))
        n += 1
    chk.extra["concrete_companions"] = dict(aggregated_tables=n)

    def engine_roundtrip():
        import jax
        import jax.numpy as jnp
        import liesel.goose as gs
        from liesel.experimental.arviz import to_arviz_inference_data
        from liesel.goose.engine import SamplingResults
        b = gs.EngineBuilder(seed=3, num_chains=2)
        b.set_model(gs.DictInterface(lambda s: -0.5 * jnp.sum(s["x"] ** 2) - 0.5 * s["y"] ** 2))
        b.set_initial_values({"x": jnp.array([0.5, -0.5]), "y": jnp.array(0.1)})
        b.add_kernel(gs.RWKernel(["x"]))
        b.add_kernel(gs.RWKernel(["y"]))
        b.set_epochs([gs.EpochConfig(gs.EpochType.INITIAL_VALUES, 1, 1, None), gs.EpochConfig(gs.EpochType.BURNIN, 6, 1, None), gs.EpochConfig(gs.EpochType.POSTERIOR, 8, 2, None)])
        b.show_progress = False
        e = b.build()
        e.sample_all_epochs()
        res = e.get_results()
        out = []
        with tempfile.TemporaryDirectory() as d:
            p = os.path.join(d, "r.pkl")
            res.pkl_save(p)
            back = SamplingResults.pkl_load(p)
        for nm, a, b_ in (("all samples", res.get_samples(), back.get_samples()), ("posterior samples", res.get_posterior_samples(), back.get_posterior_samples())):
            for k in a:
                if not np.array_equal(np.asarray(a[k]), np.asarray(b_[k])):
                    out.append(f"pickle round trip changes {nm} of {k}")
        la, lb = res.get_error_log().unwrap(), back.get_error_log().unwrap()
        for k in la:
            if not np.array_equal(np.asarray(la[k].error_codes), np.asarray(lb[k].error_codes)) or not np.array_equal(np.asarray(la[k].transition), np.asarray(lb[k].transition)):
                out.append(f"pickle round trip changes the error log of {k}")
        idata = to_arviz_inference_data(res, include_warmup=True)
        ps, al = res.get_posterior_samples(), res.get_samples()
        for k in ps:
            got = np.asarray(idata.posterior[k].values)
            if got.shape != np.asarray(ps[k]).shape or not np.array_equal(got, np.asarray(ps[k])):
                out.append(f"ArviZ posterior group of {k}: shape {got.shape} vs stored {np.asarray(ps[k]).shape} or values differ")
            if hasattr(idata, "warmup_posterior"):
                w = np.asarray(idata.warmup_posterior[k].values)
                n_w = np.asarray(al[k]).shape[1] - np.asarray(ps[k]).shape[1]       # index 0 is the initial-values epoch (not warmup)
                if w.shape[1] != n_w - 1 or not np.array_equal(w, np.asarray(al[k])[:, 1:n_w]):
                    out.append(f"ArviZ warmup group of {k}: {w.shape[1]} draws vs {n_w - 1} stored warmup draws, or values differ")
        return out
    def summary_does_not_touch_results():
        """a posterior epoch sampled in ONE jitted chunk; summaries with deselected / additional variables must leave the stored samples as they are"""
        import jax.numpy as jnp
        import liesel.goose as gs
        b = gs.EngineBuilder(seed=4, num_chains=2)
        b.set_model(gs.DictInterface(lambda s: -0.5 * s["x0"] ** 2 - 0.5 * s["x1"] ** 2))
        b.set_initial_values({"x0": jnp.array(0.5), "x1": jnp.array(-0.5)})
        b.add_kernel(gs.RWKernel(["x0"]))
        b.add_kernel(gs.RWKernel(["x1"]))
        b.set_epochs([gs.EpochConfig(gs.EpochType.INITIAL_VALUES, 1, 1, None), gs.EpochConfig(gs.EpochType.BURNIN, 8, 1, None), gs.EpochConfig(gs.EpochType.POSTERIOR, 8, 1, None)])
        b.show_progress = False
        e = b.build()
        e.sample_all_epochs()
        res = e.get_results()
        before = {k: np.asarray(v).copy() for k, v in res.get_posterior_samples().items()}
        out = []
        gs.Summary(res, deselected=["x1"])
        gs.Summary(res, additional_chain={"derived": np.asarray(before["x0"]) * 2.0})
        after = res.get_posterior_samples()
        if sorted(after) != sorted(before):
            out.append(f"posterior samples hold {sorted(after)} after two summaries, stored were {sorted(before)}")
        for k in before:
            if k in after and not np.array_equal(np.asarray(after[k]), before[k]):
                out.append(f"posterior samples of {k} changed")
        try:
            allk = sorted(res.get_samples())
            if allk != sorted(before):
                out.append(f"get_samples() holds {allk}")
        except Exception as ex:
            out.append(f"get_samples() raises {type(ex).__name__}: {ex}")
        return out
    pr2 = chk.guarded("summary-aliasing", "summaries with deselected / additional variables on a single-chunk posterior epoch", summary_does_not_touch_results)
    if pr2:
        chk.violation("summary-aliasing", "making a Summary changes the stored samples: " + "; ".join(pr2[:3]), dict(reproduced=True, observed=dict(problems=pr2), note="concrete companion (not solver-decided)"))
    pr = chk.guarded("roundtrip", "pickle and ArviZ round trips of a real two-chain engine run", engine_roundtrip)
    if pr:
        chk.violation("roundtrip", "pickling / ArviZ conversion does not preserve the stored samples: " + "; ".join(pr[:3]), dict(reproduced=True, observed=dict(problems=pr), note="concrete companion (not solver-decided)"))
    chk.extra["concrete_companions"]["engine_roundtrip"] = "pickle save/load and to_arviz_inference_data(include_warmup=True) on a real 2-chain run, compared array by array"


# ------------------------------------------------------------------------------------------------ main
def configs(tier):
    q = [Cfg("2 chains: burn-in 1, posterior 1", 2, [(3, 1, 1), (POST, 1, 1)]),
         Cfg("1 chain: fast 1, posterior 2 (thinning 2), chunk 2", 1, [(1, 1, 1), (POST, 2, 2)], chunk=2),
         Cfg("1 chain, 2 kernels: burn-in 1, posterior 1", 1, [(3, 1, 1), (POST, 1, 1)], K=2),
         Cfg("2 chains: posterior 2 only, chunk 1", 2, [(POST, 2, 1)]),
         Cfg("1 chain: slow 2 (thinning 2), burn-in 1, no kernel classes", 1, [(2, 2, 2), (3, 1, 1), (POST, 1, 1)], classes=False),
         Cfg("1 chain: burn-in 1, two posterior epochs (1 and 2 transitions)", 1, [(3, 1, 1), (POST, 1, 1), (POST, 2, 1)]),
         Cfg("2 chains: burn-in 1, posterior 1, transition infos minimized", 2, [(3, 1, 1), (POST, 1, 1)], minimize=True)]
    if tier == "thorough":
        q += [Cfg("2 chains: burn-in 1, posterior 2 (chunk 2)", 2, [(3, 1, 1), (POST, 2, 1)], chunk=2),
              Cfg("2 chains: slow 2, posterior 1", 2, [(2, 2, 1), (POST, 1, 1)]),
              Cfg("3 chains: burn-in 1, posterior 1", 3, [(3, 1, 1), (POST, 1, 1)]),
              Cfg("1 chain: fast 1, slow 1, burn-in 1, posterior 2", 1, [(1, 1, 1), (2, 1, 1), (3, 1, 1), (POST, 2, 1)]),
              Cfg("2 chains, 2 kernels: burn-in 1, posterior 1", 2, [(3, 1, 1), (POST, 1, 1)], K=2)]
    return q


def main():
    warnings.filterwarnings("ignore")
    chk = Check("C19")
    cfgs = configs(chk.tier)
    only = os.environ.get("VERIF_ONLY")
    budget = 600 if chk.tier == "quick" else 5400
    # translator validation of the proxy arrays (concrete ints through both array types)
    for cfg in cfgs:
        bad = chk.guarded(f"validate:{cfg.name}", f"[{cfg.name}] proxy-array validation", validate_proxy, cfg, chk.rng, 6)
        if bad:
            chk.harness_error(f"validate:{cfg.name}", f"proxy arrays and numpy arrays disagree: {json.dumps(bad[0])[:400]}")
            cfg.unusable = True
        chk.validated_points += 6
    # split big configurations over processes
    tasks, pre_cex = [], {}
    for cfg in cfgs:
        if getattr(cfg, "unusable", False):
            continue
        if only and only != f"paths:{cfg.name}" and not only.startswith("frame"):
            continue
        if only and only.startswith("frame"):
            continue
        cells = cfg.C * cfg.T * cfg.K
        if cells <= 4:
            tasks.append((cfg.to_json(), [[]], budget))
        else:
            done, open_, st = dse.frontier(make_run(cfg), 28)
            pre_cex[cfg.name] = (done, st)
            for p in open_:
                tasks.append((cfg.to_json(), [p], budget))
    agg = {}
    if tasks:
        with mp.get_context("spawn").Pool(min(14, len(tasks))) as pool:
            for r in pool.imap_unordered(worker, tasks):
                a = agg.setdefault(r["cfg"], dict(paths=0, queries=0, solver_s=0.0, depth=0, cex=[], complete=True, errors=[], wall=0.0))
                a["paths"] += r["paths"]
                a["queries"] += r["queries"]
                a["solver_s"] += r["solver_s"]
                a["depth"] = max(a["depth"], r["depth"])
                a["cex"] += r["cex"]
                a["complete"] = a["complete"] and r["complete"]
                a["wall"] = max(a["wall"], r["wall"])
                if r["error"]:
                    a["errors"].append(r["error"])
    path_stats = {}
    for cfg in cfgs:
        if cfg.name not in agg:
            continue
        a = agg[cfg.name]
        if cfg.name in pre_cex:
            done, st = pre_cex[cfg.name]
            a["cex"] += done
            a["paths"] += st.paths
            a["queries"] += st.queries
            a["solver_s"] += st.solver_s

        class _Ob:
            pass
        _Ob.name = (f"[{cfg.name}] for every pattern of integer error codes: the error log lists exactly the transitions with a non-zero code, the summary has one entry per non-zero code "
                    "with the kernel's message and the exact per-chain totals and posterior counts, and sample_info reports the stored sample counts")
        _Ob.signature = f"paths:{cfg.name}"
        info = dict(tactic="dynamic symbolic execution + z3 per path", paths=a["paths"], queries=a["queries"])
        path_stats[cfg.name] = dict(paths=a["paths"], solver_queries=a["queries"], solver_s=round(a["solver_s"], 2), max_branch_depth=a["depth"], symbolic_codes=cfg.C * cfg.T * cfg.K)
        if a["errors"]:
            chk.record(Result(_Ob, "unknown", a["solver_s"], info, detail=a["errors"][0][:500]))
        elif a["cex"]:
            rp = None
            for cx in a["cex"]:
                rp = replay_codes(cfg, cx["codes"])
                rp["solver_path"] = dict(kind=cx["kind"], detail=cx["detail"][:300])
                if rp["reproduced"]:
                    break
            chk.record(Result(_Ob, "sat", a["solver_s"], info, replay=rp))
        elif not a["complete"]:
            chk.record(Result(_Ob, "unknown", a["solver_s"], info, detail=f"exploration stopped after {a['paths']} paths (time budget)"))
        else:
            chk.record(Result(_Ob, "unsat", a["solver_s"], info, twin="sat"))
    # stage 2
    if not only or (only.startswith("frame") and only != "frame-aggregated"):
        frame_obligations(chk, 2, {"k0": [1, 3], "k1": [2]})
        frame_obligations(chk, 1, {"kz": [90]})
        frame_obligations(chk, 2, {"ka": [1, 90], "kb": [1], "kc": [90]}, shared_msg=True)
        if chk.tier == "thorough":
            frame_obligations(chk, 3, {"a": [1], "b": [1, 2, 90]})
    if not only or only in ("frame-aggregated", "roundtrip", "summary-aliasing"):
        companions(chk)
    chk.extra["path_exploration"] = path_stats
    chk.functions += ["liesel.goose.engine.SamplingResults.get_error_log / get_posterior_samples / get_kernels_by_pos_key", "liesel.goose.summary_m._make_error_summary",
                      "liesel.goose.summary_m.Summary.__init__ (sample_info, error_summary)", "liesel.goose.summary_m.Summary._error_df (per_chain=True through pandas on z3 terms)",
                      "liesel.goose.chain.EpochChainManager.advance_epoch / append / combine_all / combine_filtered, ListEpochChain.append", "liesel.goose.pytree.concatenate_leaves / slice_leaves"]
    chk.bounds += ["error codes: unbounded mathematical integers, one symbolic constant per kernel x chain x transition; at most "
                   + str(max(c.C * c.T * c.K for c in cfgs)) + " symbolic codes per configuration (chains <= " + str(max(c.C for c in cfgs)) + ", transitions <= " + str(max(c.T for c in cfgs)) + ", kernels <= 2)",
                   "schedules, chain counts, chunk sizes, kernel counts: the enumerated configurations", "data-frame stage: layouts enumerated, all counts and both sample sizes symbolic integers (sizes > 0)"]
    chk.enumerated += [json.dumps(c.to_json()) for c in cfgs]
    chk.assume("the kernel's error book is total (any code has a message); symbolically it is the uninterpreted map code -> message",
               "proxy arrays implement numpy's __array_function__ protocol for any / where / unique / sum / boolean-mask indexing / concatenate (validated against numpy on random patterns each run)",
               "Summary.__init__'s posterior statistics (_create_quantity_dict, ArviZ) are stubbed: not bookkeeping",
               "outside the solver-decided claim (concrete companions only): the aggregated table per_chain=False (pandas refuses object-dtype means), pickle, ArviZ conversion",
               "warmup_size_per_chain is read as the number of warmup iterations per chain (transition infos are not thinned); `relative` is count / sample size of the phase as coded")
    return chk.finish(technique=TECH)
