"""C17 simulate() draws a joint ancestral sample (Engine B, real mode)."""
import itertools

import jax
import jax.numpy as jnp
import numpy as np
import z3

from ..harness import Check, Enc, Obligation, all_eq, cells, symlike
from ..jx2smt import root_key

TECH = "jaxpr of the real Model.simulate(seed, skip) followed by Model.update(), traced as a function of the seed and all node values, interpreted over z3 reals with the normal sampler stubbed per key term; z3 decides each negated obligation"


def tfd():
    import tensorflow_probability.substrates.jax.distributions as d
    return d


# each hierarchy: build() -> model ; spec: var -> (shape, loc(vals), scale(vals)) in terms of the *new* values;
# hyper-parameters are named variables so that the oracle reads them from the state as well
def _hp(**kw):
    import liesel.model as lsl
    return {k: lsl.Var(v, name=k) for k, v in kw.items()}


def h_direct():
    import liesel.model as lsl
    h = _hp(mu_loc=3.0, mu_scale=2.0, y_scale=0.5)
    mu = lsl.Var(0.0, lsl.Dist(tfd().Normal, loc=h["mu_loc"], scale=h["mu_scale"]), name="mu")
    y = lsl.Var(jnp.zeros(2), lsl.Dist(tfd().Normal, loc=mu, scale=h["y_scale"]), name="y")
    spec = {"mu": ((), lambda v: v["mu_loc"], lambda v: v["mu_scale"]), "y": ((2,), lambda v: v["mu"], lambda v: v["y_scale"])}
    return lsl.GraphBuilder().add(y).build_model(), spec, ["mu", "y"]


def h_named():
    """as `direct`, but the distribution nodes carry user-chosen names (a variable can be skipped by its distribution node's name)"""
    import liesel.model as lsl
    h = _hp(mu_loc=3.0, mu_scale=2.0, y_scale=0.5)
    mu = lsl.Var(0.0, lsl.Dist(tfd().Normal, loc=h["mu_loc"], scale=h["mu_scale"], _name="mu_prior"), name="mu")
    y = lsl.Var(jnp.zeros(2), lsl.Dist(tfd().Normal, loc=mu, scale=h["y_scale"], _name="lik"), name="y")
    spec = {"mu": ((), lambda v: v["mu_loc"], lambda v: v["mu_scale"]), "y": ((2,), lambda v: v["mu"], lambda v: v["y_scale"])}
    return lsl.GraphBuilder().add(y).build_model(), spec, ["mu", "y"]


ALIASES = {"mu_prior": "mu", "lik": "y"}      # user-chosen distribution-node names -> variable


def is_skipped(var, skip):
    """a variable is skipped if its name, the name of its distribution node (default `<name>_log_prob` or user-chosen) or of the node
    the distribution is evaluated at (the variable's value proxy `<name>_var_value`) is listed; the plain value node's name is not a documented way to skip"""
    return any(s in (var, f"{var}_log_prob", f"{var}_var_value") or ALIASES.get(s) == var for s in skip)


def h_uniform():
    """a non-Gaussian root: a ~ Uniform(low, high) (drawn as low + (high - low) u), y ~ N(a, scale)"""
    import liesel.model as lsl
    h = _hp(a_low=-1.0, a_high=2.0, y_scale=0.5)
    a = lsl.Var(0.3, lsl.Dist(tfd().Uniform, low=h["a_low"], high=h["a_high"]), name="a")
    y = lsl.Var(jnp.zeros(2), lsl.Dist(tfd().Normal, loc=a, scale=h["y_scale"]), name="y")
    spec = {"a": ((), lambda v: v["a_low"], lambda v: v["a_high"] - v["a_low"], "uniform"), "y": ((2,), lambda v: v["a"], lambda v: v["y_scale"])}
    return lsl.GraphBuilder().add(y).build_model(), spec, ["a", "y"]


def h_intarray():
    """a continuous variable whose current value is an integer-typed array (e.g. initialised with np.zeros(2, dtype=int)), feeding its child through a calculation"""
    import liesel.model as lsl
    h = _hp(m_loc=3.0, m_scale=10.0, y_scale=0.5)
    m = lsl.Var(jnp.array([0, 0]), lsl.Dist(tfd().Normal, loc=h["m_loc"], scale=h["m_scale"]), name="m")
    mid = lsl.Calc(lambda v: 2.0 * v + 1.0, m, _name="mid")
    y = lsl.Var(jnp.zeros(2), lsl.Dist(tfd().Normal, loc=mid, scale=h["y_scale"]), name="y")
    spec = {"m": ((2,), lambda v: v["m_loc"], lambda v: v["m_scale"]), "y": ((2,), lambda v: 2 * v["m"] + 1, lambda v: v["y_scale"])}
    return lsl.GraphBuilder().add(y).build_model(), spec, ["m", "y"]


def h_direct_copy():
    """as `direct`, built with the non-default copy=True: simulate() must draw into the MODEL's own (copied) variables"""
    import liesel.model as lsl
    h = _hp(mu_loc=3.0, mu_scale=2.0, y_scale=0.5)
    mu = lsl.Var(0.0, lsl.Dist(tfd().Normal, loc=h["mu_loc"], scale=h["mu_scale"]), name="mu")
    y = lsl.Var(jnp.zeros(2), lsl.Dist(tfd().Normal, loc=mu, scale=h["y_scale"]), name="y")
    spec = {"mu": ((), lambda v: v["mu_loc"], lambda v: v["mu_scale"]), "y": ((2,), lambda v: v["mu"], lambda v: v["y_scale"])}
    return lsl.GraphBuilder().add(y).build_model(copy=True), spec, ["mu", "y"]


def h_calc():
    import liesel.model as lsl
    h = _hp(mu_loc=3.0, mu_scale=2.0, y_scale=0.5)
    mu = lsl.Var(0.0, lsl.Dist(tfd().Normal, loc=h["mu_loc"], scale=h["mu_scale"]), name="mu")
    mid = lsl.Calc(lambda m: 2.0 * m + 1.0, mu, _name="mid")
    y = lsl.Var(jnp.zeros(2), lsl.Dist(tfd().Normal, loc=mid, scale=h["y_scale"]), name="y")
    spec = {"mu": ((), lambda v: v["mu_loc"], lambda v: v["mu_scale"]), "y": ((2,), lambda v: 2 * v["mu"] + 1, lambda v: v["y_scale"])}
    return lsl.GraphBuilder().add(y).build_model(), spec, ["mu", "y"]


def h_diamond():
    """non-centred: x ~ N(loc = m * sigma, scale = sigma), sigma = 1 + tau^2 (shared intermediate), tau and m drawn"""
    import liesel.model as lsl
    h = _hp(tau_scale=1.0, m_loc=1.0)
    tau = lsl.Var(0.5, lsl.Dist(tfd().Normal, loc=0.0, scale=h["tau_scale"]), name="tau")
    sigma = lsl.Var(lsl.Calc(lambda t: 1.0 + t * t, tau), name="sigma")
    m = lsl.Var(0.2, lsl.Dist(tfd().Normal, loc=h["m_loc"], scale=1.0), name="m")
    loc = lsl.Var(lsl.Calc(lambda a, s: a * s, m, sigma), name="loc")
    x = lsl.Var(jnp.zeros(3), lsl.Dist(tfd().Normal, loc=loc, scale=sigma), name="x")
    sg = lambda v: 1 + v["tau"] * v["tau"]
    spec = {"tau": ((), lambda v: 0, lambda v: v["tau_scale"]), "m": ((), lambda v: v["m_loc"], lambda v: 1), "x": ((3,), lambda v: v["m"] * sg(v), lambda v: sg(v))}
    return lsl.GraphBuilder().add(x).build_model(), spec, ["tau", "m", "x"]


def h_perobs():
    import liesel.model as lsl
    h = _hp(y_scale=1.5)
    mu = lsl.Var(0.0, lsl.Dist(tfd().Normal, loc=0.0, scale=1.0), name="mu")
    d = lsl.Dist(tfd().Normal, loc=mu, scale=h["y_scale"])
    d.per_obs = False
    y = lsl.Var(jnp.zeros(3), d, name="y")
    spec = {"mu": ((), lambda v: 0, lambda v: 1), "y": ((3,), lambda v: v["mu"], lambda v: v["y_scale"])}
    return lsl.GraphBuilder().add(y).build_model(), spec, ["mu", "y"]


def h_twolevel():
    import liesel.model as lsl
    h = _hp(b_scale=2.0, c_scale=0.25)
    a = lsl.Var(0.1, lsl.Dist(tfd().Normal, loc=0.0, scale=1.0), name="a")
    b = lsl.Var(jnp.zeros(2), lsl.Dist(tfd().Normal, loc=a, scale=h["b_scale"]), name="b")
    s = lsl.Var(lsl.Calc(lambda bb: jnp.sum(bb) * 0.5, b), name="s")
    c = lsl.Var(jnp.zeros((2, 2)), lsl.Dist(tfd().Normal, loc=s, scale=h["c_scale"]), name="c")
    spec = {"a": ((), lambda v: 0, lambda v: 1), "b": ((2,), lambda v: v["a"], lambda v: v["b_scale"]),
            "c": ((2, 2), lambda v: (v["b"][0] + v["b"][1]) / 2, lambda v: v["c_scale"])}
    return lsl.GraphBuilder().add(c).build_model(), spec, ["a", "b", "c"]


def h_derived_root():
    """the root's scale is itself derived from a hyper-parameter (sd = 2 tau + 1): stale if simulate() is entered with pending updates"""
    import liesel.model as lsl
    h = _hp(tau=1.5, y_scale=0.5)
    sd = lsl.Var(lsl.Calc(lambda t: 2.0 * t + 1.0, h["tau"]), name="sd")
    beta = lsl.Var(jnp.zeros(2), lsl.Dist(tfd().Normal, loc=0.0, scale=sd), name="beta")
    y = lsl.Var(jnp.zeros(2), lsl.Dist(tfd().Normal, loc=beta, scale=h["y_scale"]), name="y")
    spec = {"beta": ((2,), lambda v: 0, lambda v: 2 * v["tau"] + 1), "y": ((2,), lambda v: v["beta"], lambda v: v["y_scale"])}
    return lsl.GraphBuilder().add(y).build_model(), spec, ["beta", "y"]


def h_value_node_reader():
    """a derived node reads the drawn variable through its VALUE NODE (not through the variable / its proxy), as the back-transformation of the
    deprecated GraphBuilder.transform does: it has to be refreshed after the draw like every other dependant"""
    import liesel.model as lsl
    h = _hp(mu_loc=3.0, mu_scale=2.0, y_scale=0.5)
    mu = lsl.Var(0.0, lsl.Dist(tfd().Normal, loc=h["mu_loc"], scale=h["mu_scale"]), name="mu")
    mid = lsl.Calc(lambda m: 2.0 * m + 1.0, mu.value_node, _name="mid")
    y = lsl.Var(jnp.zeros(2), lsl.Dist(tfd().Normal, loc=mid, scale=h["y_scale"]), name="y")
    spec = {"mu": ((), lambda v: v["mu_loc"], lambda v: v["mu_scale"]), "y": ((2,), lambda v: 2 * v["mu"] + 1, lambda v: v["y_scale"])}
    return lsl.GraphBuilder().add(y).build_model(), spec, ["mu", "y"]


def h_mixed_args():
    """the child's distribution gets one POSITIONAL parameter (loc) and one KEYWORD parameter (scale = 1 + tau^2, derived from the parent drawn
    just before through an intermediate Calc): both kinds of input have to reflect the values drawn so far, also with auto-update off"""
    import liesel.model as lsl
    h = _hp(tau_scale=1.0, y_loc=0.7)
    tau = lsl.Var(0.5, lsl.Dist(tfd().Normal, loc=0.0, scale=h["tau_scale"]), name="tau")
    sc = lsl.Calc(lambda t: 1.0 + t * t, tau, _name="sc")
    y = lsl.Var(jnp.zeros(2), lsl.Dist(tfd().Normal, h["y_loc"], scale=sc), name="y")
    spec = {"tau": ((), lambda v: 0, lambda v: v["tau_scale"]), "y": ((2,), lambda v: v["y_loc"], lambda v: 1 + v["tau"] * v["tau"])}
    return lsl.GraphBuilder().add(y).build_model(), spec, ["tau", "y"]


def h_mixed_args2():
    """as above with the roles swapped: positional loc derived from the drawn parent, keyword scale a hyper-parameter; positional-only parent"""
    import liesel.model as lsl
    h = _hp(mu_loc=1.0, mu_scale=2.0, y_scale=0.5)
    mu = lsl.Var(0.0, lsl.Dist(tfd().Normal, h["mu_loc"], h["mu_scale"]), name="mu")
    mid = lsl.Calc(lambda m: 2.0 * m + 1.0, mu, _name="mid")
    y = lsl.Var(jnp.zeros(2), lsl.Dist(tfd().Normal, mid, scale=h["y_scale"]), name="y")
    spec = {"mu": ((), lambda v: v["mu_loc"], lambda v: v["mu_scale"]), "y": ((2,), lambda v: 2 * v["mu"] + 1, lambda v: v["y_scale"])}
    return lsl.GraphBuilder().add(y).build_model(), spec, ["mu", "y"]


FAMILY = {"mixed positional / keyword parameters": h_mixed_args, "positional parameters, derived loc": h_mixed_args2, "derived node reading the value node": h_value_node_reader, "root with a derived scale": h_derived_root, "direct": h_direct, "direct, built with copy=True": h_direct_copy, "uniform root": h_uniform, "int-typed current value": h_intarray, "user-named dist nodes": h_named, "via-calc": h_calc, "diamond": h_diamond, "per_obs=False": h_perobs, "two-level+matrix": h_twolevel}


def scenario(chk, hname, auto, skip, stale=False):
    import liesel.model as lsl
    from liesel.model.nodes import Calc, Dist, Value
    model, spec, order = FAMILY[hname]()
    ref_model, _, _ = FAMILY[hname]()
    model.auto_update = auto
    full0 = model.state
    strong = [n for n, node in model.nodes.items() if isinstance(node, Value) and not isinstance(node, (Calc, Dist)) and not n.startswith("_model")]
    st0 = {k: full0[k].value for k in strong}

    def f(seed, st):
        # start from a coherent model state: strong values are free, everything derived is recomputed
        if stale is True:
            # simulate() is entered with pending updates (inputs assigned while auto-update was off, the setting restored afterwards): the
            # derived nodes still hold the values of the build-time state and are flagged outdated
            model.state = full0
        for k in strong:
            model.nodes[k]._value = st[k]
        for n in model.nodes.values():
            n._outdated = n.name not in strong
        if stale is not True:
            model.update()
        if stale == "twice":
            # an earlier simulate() with another seed, made while the last variable held a value of ANOTHER SHAPE: the measured call is determined
            # by its own seed, the ancestors it draws itself and the shapes of the values current when it is made
            model.update()
            leaf = model.vars[order[-1]]
            leaf.value = jnp.zeros(tuple(d_ + 1 for d_ in np.shape(st[leaf.value_node.name])) or (2,))
            model.simulate(jax.random.fold_in(seed, 5), skip=skip)
            for k in strong:
                model.nodes[k]._value = st[k]
            for n in model.nodes.values():
                n._outdated = n.name not in strong
            model.update()
        model.simulate(seed, skip=skip)
        model.update()
        out = {k: v.value for k, v in model.state.items() if v.value is not None}
        # from-scratch recomputation on a second, independently built model
        for k in strong:
            ref_model.nodes[k]._value = out[k]
        for n in ref_model.nodes.values():
            if n.name not in strong:
                n._outdated = True
        au = ref_model.auto_update
        ref_model.auto_update = True
        ref_model.update()
        ref = {k: v.value for k, v in ref_model.state.items() if v.value is not None}
        ref_model.auto_update = au
        flags = {k: jnp.asarray(v.outdated) for k, v in model.state.items()}
        return dict(out=out, ref=ref)
    key = jax.random.PRNGKey(17)
    tag = f"{hname}|auto={auto}|skip={','.join(skip) or '-'}" + ("|entered with pending updates" if stale is True else "|after an earlier simulate() with another seed" if stale else "")
    pref = "".join(ch for ch in tag if ch.isalnum())
    sst = symlike(st0, pref)
    for k in list(sst):            # literal hyper-parameters (auto-named nodes) stay concrete
        if (k[0] == "n" and k[1:].isdigit()) or np.asarray(st0[k]).dtype.kind in "iub":
            sst[k] = np.asarray(st0[k])
    # input state must itself be coherent for "skipped variables untouched / ancestors new" to be meaningful:
    # only the values of strong nodes are free, derived nodes are whatever they are (arbitrary)
    enc = chk.note_enc(Enc(f"simulate[{tag}]", f, (key, st0), (root_key("seed"), sst), key_roots={"seed": key}))
    model.state = full0
    ref_model.state = ref_model.state
    return enc, spec, order, sst, tag


def obligations(enc, spec, order, sst, tag, skip):
    obs = []

    def newvals(V):
        out = V.out["out"]
        return {k[:-6]: (cells(a)[0] if np.shape(a) == () else a) for k, a in out.items() if k.endswith("_value")}

    def skipped(var):
        return is_skipped(var, skip)

    for var in order:
        shape, loc, scale = spec[var][:3]
        kind = spec[var][3] if len(spec[var]) > 3 else "normal"
        if skipped(var):
            def g_skip(V, var=var):
                return [], all_eq(V.out["out"][f"{var}_value"], sst[f"{var}_value"])
            obs.append(Obligation(f"simulate[{tag}]: skipped variable {var} keeps its value", [enc], g_skip, signature=f"{tag}:skip:{var}"))
            continue

        def g_draw(V, var=var, shape=shape, loc=loc, scale=scale, kind=kind):
            nv = newvals(V)
            got = V.out["out"][f"{var}_value"]
            n = int(np.prod(shape, dtype=int))
            alts = []
            for d in V.I.draws:
                if d["kind"] != kind or int(np.prod(d["shape"], dtype=int)) != n:
                    continue
                z = cells(d["out"])
                Ls = list(np.broadcast_to(np.asarray(loc(nv), dtype=object), shape).reshape(-1)) if shape else [loc(nv)]
                Ss = list(np.broadcast_to(np.asarray(scale(nv), dtype=object), shape).reshape(-1)) if shape else [scale(nv)]
                alts.append(z3.And(*[c == l_ + s_ * zz for c, zz, l_, s_ in zip(cells(got), z, Ls, Ss)]))
            return [], z3.Or(*alts) if alts else z3.BoolVal(False)
        obs.append(Obligation(f"simulate[{tag}]: {var} = loc(new ancestors) + scale(new ancestors) * z with z a standard normal (or, for a uniform prior, standard uniform) draw of its own key",
                              [enc], g_draw, signature=f"{tag}:draw:{var}"))

    def g_coh(V):
        out, ref = V.out["out"], V.out["ref"]
        return [], z3.And(*[all_eq(out[k], ref[k]) for k in out if k in ref])
    obs.append(Obligation(f"simulate[{tag}]: after update() every node equals its from-scratch recomputation", [enc], g_coh, signature=f"{tag}:coherent"))
    return obs


def structural(chk, enc, spec, sst, tag, skip):
    """concrete facts about the encoding: shapes preserved, draws use pairwise distinct keys derived from the seed only"""
    out = enc.out["out"]
    for k, v in sst.items():
        if k in out and np.shape(out[k]) != np.shape(v):
            chk.violation(f"{tag}:shape:{k}", f"simulate[{tag}]: shape of {k} changed from {np.shape(v)} to {np.shape(out[k])}",
                          dict(reproduced=True, note="shape read off the traced real function (jax.eval_shape)", observed=dict(before=list(np.shape(v)), after=list(np.shape(out[k])))))
    keys = [repr(k) for d in enc.I.draws for k in d["keys"]]
    if len(set(keys)) != len(keys):
        chk.violation(f"{tag}:keys", f"simulate[{tag}]: two variables are drawn with the same PRNG key", dict(reproduced=True, note=str(keys)))
    n_expected = sum(1 for v in spec if not is_skipped(v, skip)) * (2 if "earlier simulate" in tag else 1)
    if len(keys) != n_expected:
        chk.harness_error(f"{tag}:draw-count", f"expected {n_expected} sampler calls, trace has {len(keys)}")
    for k in keys:
        if "root" in k and "seed" not in k:
            chk.harness_error(f"{tag}:key-root", f"draw key not derived from the seed: {k}")


def main():
    chk = Check("C17")
    if chk.tier == "quick":
        plan = [("direct", True, ()), ("via-calc", False, ()), ("via-calc", True, ()), ("diamond", False, ()), ("diamond", True, ("m",)),
                ("per_obs=False", False, ()), ("two-level+matrix", False, ("a",)), ("direct", False, ("mu_log_prob",)), ("via-calc", False, ("y_var_value",)),
                ("user-named dist nodes", True, ("mu_prior",)), ("user-named dist nodes", False, ("lik",)), ("uniform root", False, ()), ("uniform root", True, ("y",)), ("int-typed current value", False, ()), ("direct, built with copy=True", True, ()),
                ("via-calc", True, (), True), ("diamond", True, ("m",), True), ("two-level+matrix", False, (), True),
                ("root with a derived scale", True, (), True), ("root with a derived scale", False, (), True), ("root with a derived scale", True, ("y",), True), ("root with a derived scale", True, ()),
                ("via-calc", False, (), "twice"), ("diamond", True, ("m",), "twice"),
                ("derived node reading the value node", True, ()), ("derived node reading the value node", False, ()),
                ("mixed positional / keyword parameters", False, ()), ("mixed positional / keyword parameters", True, ()),
                ("positional parameters, derived loc", False, ()), ("positional parameters, derived loc", True, (), True)]
    else:
        plan = []
        for h in FAMILY:
            vars_ = FAMILY[h]()[2]
            skips = [()] + [(v,) for v in vars_[:-1]] + [(vars_[-1],)] + [(f"{vars_[0]}_log_prob",), (f"{vars_[-1]}_var_value",)]
            if h == "user-named dist nodes":
                skips = [("mu_prior",), ("lik",), ("mu_prior", "lik"), ("y_var_value",), ("mu",)]     # `<var>_log_prob` is not a node name here
            for auto in (True, False):
                for sk in skips:
                    plan.append((h, auto, sk))
                plan.append((h, auto, (), True))
    obs = []
    for h, auto, skip, *stale in plan:
        enc, spec, order, sst, tag = scenario(chk, h, auto, skip, stale[0] if stale else False)
        structural(chk, enc, spec, sst, tag, skip)
        obs += obligations(enc, spec, order, sst, tag, skip)
        chk.validated_points += enc.validate(chk.rng, npoints=1)
    chk.run(obs)
    chk.functions += ["liesel.model.model.Model.simulate", "liesel.model.model.Model.update", "liesel.model.nodes.Dist.init_dist / update", "liesel.model.nodes.Value.value setter / flag_outdated",
                      "tfd.Normal.sample (traced; jax.random.normal stubbed per key term)"]
    chk.bounds += ["all current node values symbolic reals; shapes (), (2,), (3,), (2,2)", "one simulate() call followed by one update()"]
    chk.enumerated += [f"{h} auto_update={a} skip={list(s)}" + (" entered with pending updates" if st and st[0] is True else " after an earlier simulate()" if st else "") for h, a, s, *st in plan]
    chk.assume("location-scale (Normal) families so that a draw is an explicit function of the sampler's standard normal output", "ideal PRNG: draws memoised by key term; distinct terms are independent draws",
               "real arithmetic", "the from-scratch reference is Model.update() on a second, independently built model with all nodes flagged outdated (its correctness is C01's subject)")
    return chk.finish(technique=TECH)
