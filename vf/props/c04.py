"""C04 Every built-in kernel leaves the target invariant -- reduced claim: the glue between liesel's
NUTS/HMC kernels and blackjax (Engine B, assume/guarantee); RW/IWLS/MH: C05+C06, Gibbs: C13, sequences: C09."""
import os

import jax
import jax.numpy as jnp
import numpy as np
import z3

from .. import kernels as K
from .. import models as M
from ..harness import Check, Enc, Obligation, all_eq, cells, symlike
from ..jx2smt import root_key
from .c03 import regression_with_report

TECH = ("jaxpr of the real NUTSKernel/HMCKernel._standard_transition with blackjax's kernel re-bound to a recording verif_stub: what the sampler is given "
        "(log-density function at a symbolic probe position, initial state with JAX's autodiff gradient, step size, metric) and how its output is turned into the model state; "
        "interpreted over z3 reals; z3/nlsat decides each negated obligation")


def dict_scenario(chk, kind, keys, dense):
    import liesel.goose as gs
    from liesel.goose.hmc import HMCKernelState
    from liesel.goose.nuts import NUTSKernelState
    rec = {}
    with K.stub_blackjax(rec):
        d = sum(int(np.prod(np.shape(K.STATE_AB[x]), dtype=int)) for x in keys)
        Kc = gs.NUTSKernel if kind == "nuts" else gs.HMCKernel
        k = Kc(list(keys), initial_step_size=0.1, mm_diag=not dense, **({"num_integration_steps": 7} if kind == "hmc" else {"max_treedepth": 6}))
        k.set_model(gs.DictInterface(K.lp_ab))
        KS = NUTSKernelState if kind == "nuts" else HMCKernelState
        imm0 = jnp.eye(d) if dense else jnp.ones(d)
        probe0 = {x: K.STATE_AB[x] + 0.1 for x in keys}

        def g(key, ss, imm, st, probe):
            with K.stub_blackjax(rec):
                out = k._standard_transition(key, KS(ss, imm), st, K.epoch_state(4, 0))
            s0 = rec["state_in"]
            return dict(state=out.model_state, ld_probe=rec["logdensity_fn"](probe), ss=rec["step_size"], imm=rec["inverse_mass_matrix"], pos0=s0.position, ld0=s0.logdensity,
                        grad0=s0.logdensity_grad, ks=(out.kernel_state.step_size, out.kernel_state.inverse_mass_matrix), acc=out.info.acceptance_prob, code=out.info.error_code,
                        extra={kk: jnp.asarray(vv) for kk, vv in rec.items() if kk in ("num_integration_steps", "max_num_doublings")})
        key = jax.random.PRNGKey(4)
        tag = f"{kind}[{','.join(keys)}]{'dense' if dense else 'diag'}"
        pre = "".join(ch for ch in tag if ch.isalnum())
        ss = z3.Real(f"ss_{pre}")
        simm, sst, spr = symlike(imm0, f"imm_{pre}"), symlike(K.STATE_AB, f"st_{pre}"), symlike(probe0, f"pr_{pre}")
        dom = {f"ss_{pre}": (0.05, 0.5), f"st_{pre}_w": (0.5, 2.0)}
        enc = chk.note_enc(Enc(f"{tag}._standard_transition (Dict model)", g, (key, 0.1, imm0, K.STATE_AB, probe0),
                               (root_key("k"), np.array(ss, dtype=object).reshape(()), simm, sst, spr), key_roots={"k": key}, domain=dom))
    a, b, m, w = sst["a"], cells(sst["b"])[0], sst["m"], cells(sst["w"])[0]

    def lp_ref(V, a_, b_):
        return -sum((a_[i] - m[i]) * (a_[i] - m[i]) for i in range(2)) * w / 2 - V.exp(b_) + b_ * a_[0] / 2
    obs = []

    def mk(nm, f, sig):
        obs.append(Obligation(f"{tag}: {nm}", [enc], f, signature=f"{tag}:{sig}"))

    def cur(x):
        return {"a": list(a), "b": b}[x]

    def g_probe(V):
        pa = list(spr["a"]) if "a" in keys else list(a)
        pb = cells(spr["b"])[0] if "b" in keys else b
        return [], cells(V.out["ld_probe"])[0] == lp_ref(V, pa, pb)
    mk("the log-density function handed to the sampler, at any probe position, is the model log-density with the kernel's block replaced by the probe and everything else from the current state", g_probe, "target")

    def g_init(V):
        gl = [all_eq(V.out["pos0"][x], sst[x]) for x in keys] + [cells(V.out["ld0"])[0] == lp_ref(V, list(a), b)]
        if "a" in keys:
            gl.append(all_eq(V.out["grad0"]["a"], np.array([-(a[0] - m[0]) * w + b / 2, -(a[1] - m[1]) * w], dtype=object)))
        if "b" in keys:
            gl.append(cells(V.out["grad0"]["b"])[0] == -V.exp(b) + a[0] / 2)
        return [], z3.And(*gl)
    mk("the sampler starts at the current block values with their log-density and its (autodiff = analytic) gradient", g_init, "init-state")
    opts = V_opts = None

    def g_opts(V):
        ex = V.out["extra"]
        want = {"num_integration_steps": getattr(k, "num_integration_steps", None)} if kind == "hmc" else {"max_num_doublings": k.max_treedepth}
        ok = all(kk in ex and int(np.asarray(cells(ex[kk])[0].as_long() if z3.is_int_value(cells(ex[kk])[0]) else -1)) == int(vv) for kk, vv in want.items())
        return [], z3.BoolVal(bool(ok))
    mk("the sampler is built with the kernel's own integration settings (HMC: num_integration_steps, NUTS: max_num_doublings = max_treedepth)", g_opts, "options")
    mk("step size and inverse mass matrix are passed to the sampler unchanged; the kernel state passes through",
       lambda V: ([], z3.And(cells(V.out["ss"])[0] == ss, all_eq(V.out["imm"], simm), cells(V.out["ks"][0])[0] == ss, all_eq(V.out["ks"][1], simm))), "tuning")

    def g_state(V):
        a_, o_ = V.call("blackjax_step")
        new_pos = dict(zip(sorted(keys), o_[1:1 + len(keys)]))      # stub output leaves: acc, position (sorted keys) ...
        # locate the position leaves by shape/order: dict(position=..., acc=...) flattens as acc, accepted, divergent, expansions, position{sorted keys}, steps, turning
        leaves = {nm_: arr for nm_, arr in zip(stub_leaf_names(keys), o_)}
        gl = [all_eq(V.out["state"][x], leaves[f"position.{x}"]) for x in keys]
        gl += [all_eq(V.out["state"][x], sst[x]) for x in sst if x not in keys]
        gl.append(cells(V.out["acc"])[0] == cells(leaves["acc"])[0])
        return [], z3.And(*gl)
    mk("the returned model state is the current state with the block set to the sampler's output, everything else untouched; the reported acceptance probability is the sampler's", g_state, "output")
    return obs, enc


def stub_leaf_names(keys):
    like = dict(position={x: 0 for x in keys}, acc=0, accepted=0, divergent=0, turning=0, expansions=0, steps=0)
    paths = jax.tree_util.tree_flatten_with_path(like)[0]
    return [".".join(str(getattr(p, "key", p)) for p in path) for path, _ in paths]


def liesel_scenario(chk, kind):
    """Liesel graph model with a transformed parameter: the target handed to the sampler at a probe = model log-prob after update_state(probe)"""
    import liesel.goose as gs
    from liesel.goose.hmc import HMCKernelState
    from liesel.goose.nuts import NUTSKernelState
    rec = {}
    with K.stub_blackjax(rec):
        model = regression_with_report()
        iface = gs.LieselInterface(model)
        ref_iface = gs.LieselInterface(model)
        keys = ["sigma_transformed", "beta"]
        Kc = gs.NUTSKernel if kind == "nuts" else gs.HMCKernel
        k = Kc(keys, initial_step_size=0.1)
        k.set_model(iface)
        KS = NUTSKernelState if kind == "nuts" else HMCKernelState
        st0 = model.state
        vals0 = M.values_of(st0)
        free = {kk: jnp.asarray(vals0[kk]) for kk in M.strong_names(model) if np.asarray(vals0[kk]).dtype.kind == "f" and not M.is_concrete_name(kk)}
        probe0 = {"beta": jnp.array([0.2, -0.1]), "sigma_transformed": jnp.array(0.3)}

        def g(key, ss, imm, fv, probe):
            st = ref_iface.update_state(fv, st0)
            with K.stub_blackjax(rec):
                out = k._standard_transition(key, KS(ss, imm), st, K.epoch_state(4, 0))
            s0 = rec["state_in"]
            want = ref_iface.update_state(probe, st)
            return dict(ld_probe=rec["logdensity_fn"](probe), want_probe=want["_model_log_prob"].value, pos0=s0.position, ld0=s0.logdensity, cur_lp=st["_model_log_prob"].value,
                        cur_pos={kk: st[kk + "_value"].value for kk in keys}, new=M.values_of(out.model_state),
                        ss=rec["step_size"], imm=rec["inverse_mass_matrix"])
        key = jax.random.PRNGKey(5)
        pre = f"L{kind}"
        ss = z3.Real(f"ss_{pre}")
        simm, sfv, spr = symlike(jnp.ones(3), f"imm_{pre}"), symlike(free, f"fv_{pre}"), symlike(probe0, f"pr_{pre}")
        enc = chk.note_enc(Enc(f"{kind}[sigma_transformed,beta]._standard_transition (Liesel model, transformed parameter)", g, (key, 0.1, jnp.ones(3), free, probe0),
                               (root_key("k"), np.array(ss, dtype=object).reshape(()), simm, sfv, spr), key_roots={"k": key}, domain={f"ss_{pre}": (0.05, 0.5)}))
    tag = f"{kind}/liesel"
    obs = []
    obs.append(Obligation(f"{tag}: the log-density function handed to the sampler at any probe = the model's log-probability after assigning the probe to the kernel's block (incl. the change-of-variables term)",
                          [enc], lambda V: ([], cells(V.out["ld_probe"])[0] == cells(V.out["want_probe"])[0]), signature=f"{tag}:target"))
    obs.append(Obligation(f"{tag}: the sampler starts at the current block values and log-probability; tuning passed unchanged", [enc],
                          lambda V: ([], z3.And(*[all_eq(V.out["pos0"][kk], V.out["cur_pos"][kk]) for kk in V.out["pos0"]], cells(V.out["ld0"])[0] == cells(V.out["cur_lp"])[0],
                                                cells(V.out["ss"])[0] == ss, all_eq(V.out["imm"], simm))), signature=f"{tag}:init-state"))

    def g_out(V):
        a_, o_ = V.call("blackjax_step")
        leaves = {nm_: arr for nm_, arr in zip(stub_leaf_names(["beta", "sigma_transformed"]), o_)}
        new = V.out["new"]
        return [], z3.And(all_eq(new["beta_value"], leaves["position.beta"]), all_eq(new["sigma_transformed_value"], leaves["position.sigma_transformed"]),
                          cells(new["sigma_value"])[0] == V.exp(cells(leaves["position.sigma_transformed"])[0]))
    obs.append(Obligation(f"{tag}: the returned model state carries the sampler's output in the block and the original (constrained) parameter as its bijector image", [enc], g_out,
                          signature=f"{tag}:output"))
    return obs, enc


LEMMAS = {"C05": "Metropolis-Hastings acceptance rule (RW / IWLS / MH kernels accept with exactly min(1, ratio))",
          "C06": "proposal densities and corrections of RW / IWLS / MH give the Metropolis-Hastings ratio (detailed balance)",
          "C13": "Gibbs kernels draw from the full conditional", "C11": "tuning parameters are held fixed in burn-in and posterior epochs", "C09": "a kernel sequence is the composition of its kernels on a coherent state"}


def run_lemma(pid, only=None):
    """the checks the reduced claim rests on are run as sub-processes against the same tree (their own evidence goes to a side directory)"""
    import json
    import subprocess
    import sys
    import tempfile
    here = os.path.dirname(os.path.dirname(os.path.dirname(os.path.abspath(__file__))))
    side = tempfile.mkdtemp(prefix=f"c04_{pid}_")
    env = dict(os.environ)
    env["VERIF_EVIDENCE_DIR"] = side
    env["VERIF_REPLAY_DIR"] = side
    env.pop("VERIF_ONLY", None)
    if only:
        env["VERIF_ONLY"] = only
    p = subprocess.run([sys.executable, "-m", "vf.run", pid, "--tier", "quick"], capture_output=True, text=True, env=env, cwd=here, timeout=3000)
    viol = []
    for f in sorted(os.listdir(side)):
        if f.startswith(pid + "_") and f.endswith(".json"):
            try:
                viol.append(json.load(open(os.path.join(side, f))))
            except Exception:
                pass
    summary = next((l for l in p.stdout.splitlines() if l.startswith(f"[{pid}]")), "")
    import shutil
    shutil.rmtree(side, ignore_errors=True)
    return p.returncode, viol, summary, (p.stdout + p.stderr)[-400:]


def lemmas(chk):
    from concurrent.futures import ThreadPoolExecutor
    only = os.environ.get("VERIF_ONLY", "")
    if only and not only.startswith("lemma:"):
        return
    todo = list(LEMMAS)
    sel = None
    if only.startswith("lemma:"):
        _, pid, sel = only.split(":", 2)
        todo = [pid]
    with ThreadPoolExecutor(5) as ex:
        res = list(ex.map(lambda pid: run_lemma(pid, sel), todo))
    rows = []
    for pid, (rc, viol, summary, tail) in zip(todo, res):
        rows.append(dict(lemma=pid, exit=rc, summary=summary))
        if rc == 1:
            for v in viol[:3]:
                chk.violation(f"lemma:{pid}:{v.get('signature')}", f"a lemma the invariance claim rests on fails -- {pid} ({LEMMAS[pid]}): {v.get('what')}",
                              dict(v.get("replay", {}), delegated_to=pid, reproduced=True))
            if not viol:
                chk.harness_error(f"lemma:{pid}", f"{pid} exited 1 without a replay file: {tail}")
        elif rc != 0:
            chk.harness_error(f"lemma:{pid}", f"{pid} was inconclusive on this tree: {summary or tail}")
    chk.extra["lemmas_run"] = rows


def sequence_keys(chk, kinds):
    """independent randomness across the kernels of a sequence: every sampler invocation of one iteration uses a key term provably distinct from all others"""
    from .c09 import scenario as seq_scenario
    from ..harness import Result, colliding_draw_keys, eval_keyterm
    for kind in kinds:
        res = chk.guarded(f"{kind}:trace", f"tracing KernelSequence[{kind}]", seq_scenario, chk, kind)
        if not res:
            continue
        e_seq = res[0]
        bad, n = colliding_draw_keys(e_seq.I)
        chk.extra.setdefault("sequence_draw_keys", []).append(dict(sequence=kind, sampler_calls=n, collisions=len(bad)))

        class _Ob:
            name = f"KernelSequence[{kind}]: all {n} sampler invocations of one iteration use pairwise distinct key terms"
            signature = f"sequence-keys:{kind}"
        if not bad:
            chk.results.append(Result(_Ob, "unsat", 0.0, {"tactic": "z3 datatype"}))
        else:
            (k1, s1, t1), (k2, s2, t2) = bad[0]
            real = e_seq.key_roots
            ka, kb = np.asarray(eval_keyterm(t1.term, real)), np.asarray(eval_keyterm(t2.term, real))
            same = bool(np.array_equal(ka, kb))
            chk.results.append(Result(_Ob, "sat", 0.0, {"tactic": "z3 datatype"}, replay=dict(reproduced=same)))
            if same:
                chk.violation(_Ob.signature, _Ob.name + f" -- a {k1}{list(s1)} draw and a {k2}{list(s2)} draw share the key {t1!r}",
                              dict(reproduced=True, observed=dict(key=[int(v) for v in ka.reshape(-1)]), note="both key terms evaluate to the same real PRNG key: the later draw reuses the earlier kernel's randomness"))
            else:
                chk.harness_error(_Ob.signature, "key terms equal for the solver but the real keys differ")


def main():
    chk = Check("C04")
    obs = []
    plan = [("nuts", ("b", "a"), False), ("hmc", ("a",), False), ("hmc", ("b", "a"), True)] if chk.tier == "quick" else \
        [(k_, ks, d) for k_ in ("nuts", "hmc") for ks in (("b", "a"), ("a",), ("b",)) for d in (False, True)]
    for kind, keys, dense in plan:
        res = chk.guarded(f"{kind}{keys}:trace", f"tracing {kind}{list(keys)}", dict_scenario, chk, kind, keys, dense)
        if res:
            obs += res[0]
            chk.validate(res[1])
    for kind in (("nuts",) if chk.tier == "quick" else ("nuts", "hmc")):
        res = chk.guarded(f"{kind}/liesel:trace", f"tracing {kind} on the Liesel model", liesel_scenario, chk, kind)
        if res:
            obs += res[0]
            chk.validate(res[1])
    sequence_keys(chk, ["liesel:RW+Gibbs", "dict:RW+MH", "liesel:Gibbs+RW+RW(ids not sorted)"] if chk.tier == "quick" else ["liesel:RW+Gibbs", "liesel:IWLS+RW", "liesel:Gibbs+RW+RW(ids not sorted)", "dict:RW+MH"])
    chk.run(obs)
    lemmas(chk)
    chk.functions += ["liesel.goose.nuts.NUTSKernel._standard_transition/_blackjax_state/_blackjax_kernel", "liesel.goose.hmc.HMCKernel._standard_transition", "liesel.goose.kernel.ModelMixin.log_prob_fn/position",
                      "blackjax.mcmc.nuts.init / hmc.init (real, traced: jax.value_and_grad of the handed log-density)"]
    chk.bounds += ["one transition; state, probe position, step size and metric symbolic reals; blocks of one or two keys (shapes (2,), ())"]
    chk.enumerated += [f"{k_}{list(ks)}{'dense' if d else 'diag'} on the Dict model" for k_, ks, d in plan] + ["NUTS (thorough: +HMC) on the Liesel regression model with transformed scale"]
    chk.extra["reduced_claim"] = ("Invariance itself is an integral statement no solver query expresses. Decided here: liesel hands blackjax exactly the block-conditional density, start state, gradient and tuning, and "
                                  "writes the sampler's output back coherently. Assumed: blackjax's kernel leaves the density it is given invariant for any fixed step size / p.d. metric. "
                                  "RW/IWLS/MH: detailed balance = C05 (acceptance rule) and C06 (proposal densities); Gibbs: C13 (full conditional); sequences over disjoint blocks: C09 (each kernel "
                                  "targets the conditional of the same joint) + the composition theorem.")
    chk.assume("blackjax hmc/nuts kernels leave their logdensity_fn invariant (trusted); init_state / find_reasonable_step_size (data-dependent while loops) outside",
               "real arithmetic", "detailed balance => invariance and composition of invariant kernels are theorems, not checked",
               "the quick tiers of C05, C06, C13, C11 and C09 are run as part of this check (sub-processes on the same tree): a failing lemma is reported as a violation of C04 with the lemma's replay")
    return chk.finish(technique=TECH)
