"""C15 Built models are complete, acyclic, uniquely named, frozen, and round-trip (Engine A, reduced claim)."""
import copy
import io

import jax
import jax.numpy as jnp
import numpy as np

from .. import models as M
from ..chrun import Cond, run_conditions
from ..harness import Check, Inconclusive, Result

TECH = ("CrossHair symbolic execution (z3 strings/ints per path) of the real GraphBuilder naming code with symbolic node / variable names and of the freeze guards with a symbolic choice of "
        "mutator, target and argument; structural facts and pop / copy / deepcopy / copy=True / save-load round trips are concrete executions on an enumerated family of graphs")


def seeded_model():
    import liesel.model as lsl
    a = lsl.Var(1.0, name="a")
    noise = lsl.Calc(lambda x, seed: x + jax.random.normal(seed), a, _name="noise", _needs_seed=True)
    return lsl.GraphBuilder().add(noise)


def user_seed_model():
    """a node that needs a seed but carries a user-supplied `seed` input (which takes precedence over the model's)"""
    import liesel.model as lsl
    a = lsl.Var(1.0, name="a")
    useed = lsl.Value(jax.random.PRNGKey(7), _name="my_seed")
    noise = lsl.Calc(lambda x, seed: x + jax.random.normal(seed), a, seed=useed, _name="noise2", _needs_seed=True)
    return lsl.GraphBuilder().add(noise)


def unnamed_model():
    import liesel.model as lsl
    a = lsl.Value(1.0)
    b = lsl.Value(2.0)
    c = lsl.Calc(lambda x, y: x + y, a, b)
    v = lsl.Var(lsl.Calc(lambda z: 2 * z, c))
    return lsl.GraphBuilder().add(v)


def family():
    fam = {k: (lambda f=f: f()) for k, f in M.FAMILY.items() if k in ("regression(transformed scale)", "weak-hierarchy", "dist-without-var", "degenerate-mvn-prior", "DistRegBuilder(np+p smooth)",
                                                                      "auto_transform")}
    # ("user-supplied totals" is not a member: the user's total nodes are declared on the GraphBuilder, so a rebuild has to re-declare them)
    fam["seeded node"] = lambda: seeded_model().build_model()
    fam["unnamed nodes"] = lambda: unnamed_model().build_model()
    fam["seeded node with user-supplied seed"] = lambda: user_seed_model().build_model()
    return fam


def state_equal(m1, m2):
    s1, s2 = M.values_of(m1.state), M.values_of(m2.state)
    if set(s1) != set(s2):
        return f"node sets differ: {sorted(set(s1) ^ set(s2))[:4]}"
    for k in s1:
        a, b = np.asarray(s1[k]), np.asarray(s2[k])
        if a.shape != b.shape or not np.allclose(a, b, rtol=1e-5, atol=1e-6, equal_nan=True):
            if a.dtype.kind in "fiu" and b.dtype.kind in "fiu":
                return f"value of {k} differs: {a.tolist()} vs {b.tolist()}"
    return None


def structure_problems(m):
    from liesel.model.nodes import TransientNode
    pr = []
    nodes = list(m.nodes.values())
    if any(not n for n in m.nodes) or len(set(m.nodes)) != len(m.nodes) or any(k != n.name for k, n in m.nodes.items()):
        pr.append("node names empty / not unique / not the dict keys")
    if any(not n for n in m.vars) or any(k != v.name for k, v in m.vars.items()):
        pr.append("variable names empty / not the dict keys")
    ids = {id(n) for n in nodes}
    for n in nodes:
        for i in n.all_input_nodes():
            if id(i) not in ids:
                pr.append(f"input {i.name!r} of {n.name!r} is not part of the model")
            if not any(o is n for o in i.outputs):
                pr.append(f"{n.name!r} missing from the outputs of its input {i.name!r}")
        for o in n.outputs:
            if id(o) not in ids:
                pr.append(f"output {o.name!r} of {n.name!r} is not part of the model")
            if not any(i is n for i in o.all_input_nodes()):
                pr.append(f"{o.name!r} listed as output of {n.name!r} without having it as input")
    pos = {id(n): k for k, n in enumerate(m._sorted_nodes)}
    if len(pos) != len(nodes) or set(pos) != ids:
        pr.append("update order does not contain every node exactly once")
    else:
        for n in nodes:
            for i in n.all_input_nodes():
                if pos[id(i)] >= pos[id(n)]:
                    pr.append(f"update order not topological: {i.name!r} after {n.name!r}")
    return pr[:5]


def concrete_checks(chk):
    import liesel.model as lsl
    fam = family()
    n_models = 0
    for name, build in fam.items():
        def one(name=name, build=build):
            m = build()
            pr = structure_problems(m)
            if pr:
                chk.violation(f"structure:{name}", f"[{name}] built model: " + "; ".join(pr), dict(reproduced=True, observed=dict(problems=pr), note="concrete inspection of the built model"))
            # deepcopy
            m2 = copy.deepcopy(m)
            d = state_equal(m, m2)
            if d:
                chk.violation(f"deepcopy:{name}", f"[{name}] deepcopy does not reproduce the state: {d}", dict(reproduced=True, note=d))
            if any(a is b for a, b in zip(m.nodes.values(), m2.nodes.values())):
                chk.violation(f"deepcopy-shared:{name}", f"[{name}] deepcopy shares nodes with the original", dict(reproduced=True))
            # save / load
            buf = io.BytesIO()
            try:
                lsl.save_model(m, buf)
                buf.seek(0)
                m3 = lsl.load_model(buf)
                d = state_equal(m, m3)
                if d:
                    chk.violation(f"saveload:{name}", f"[{name}] save/load does not reproduce the state: {d}", dict(reproduced=True, note=d))
            except Exception as ex:      # dill limitations on closures are not liesel's
                chk.skipped.append((f"save/load {name}", f"dill could not serialise this family member: {type(ex).__name__}"))
            # copy_nodes_and_vars -> rebuild (the original stays usable)
            before = M.values_of(m.state)
            nodes, vars_ = m.copy_nodes_and_vars()
            m4 = lsl.GraphBuilder().add(*nodes.values(), *vars_.values()).build_model()
            d = state_equal(m, m4)
            if d:
                chk.violation(f"copy-rebuild:{name}", f"[{name}] copy_nodes_and_vars + rebuild does not reproduce the model: {d}", dict(reproduced=True, note=d))
            after = M.values_of(m.state)
            if any(not np.array_equal(np.asarray(before[k]), np.asarray(after[k]), equal_nan=True) for k in before if np.asarray(before[k]).dtype.kind in "fiu"):
                chk.violation(f"copy-independent:{name}", f"[{name}] copying nodes out of the model changed the original", dict(reproduced=True))
            pr = structure_problems(m4)
            if pr:
                chk.violation(f"structure-rebuilt:{name}", f"[{name}] rebuilt model: " + "; ".join(pr), dict(reproduced=True, observed=dict(problems=pr)))
            # pop -> rebuild
            ref = copy.deepcopy(m)
            nodes, vars_ = m.pop_nodes_and_vars()
            if len(m.nodes) or len(m.vars):
                chk.violation(f"pop-clears:{name}", f"[{name}] pop_nodes_and_vars leaves nodes in the popped model", dict(reproduced=True))
            if any(n.model is not None for n in nodes.values()):
                chk.violation(f"pop-unfreezes:{name}", f"[{name}] popped nodes still belong to a model", dict(reproduced=True))
            m5 = lsl.GraphBuilder().add(*nodes.values(), *vars_.values()).build_model()
            d = state_equal(ref, m5)
            if d:
                chk.violation(f"pop-rebuild:{name}", f"[{name}] pop + rebuild does not reproduce the model: {d}", dict(reproduced=True, note=d))
        chk.guarded(f"roundtrip:{name}", f"[{name}] build / copy / pop / rebuild / save-load round trips", one)
        n_models += 1
    # completeness: every recursive input of the added nodes is in the built model, as the same object (copy=False)
    for name, gbf in {"seeded node": seeded_model, "unnamed nodes": unnamed_model, "seeded node with user-supplied seed": user_seed_model}.items():
        def comp(name=name, gbf=gbf):
            gb = gbf()
            pre, stack = [], [n for n in gb.nodes] + [n for v in gb.vars for n in v.nodes]
            while stack:
                n = stack.pop()
                if not any(n is q for q in pre):
                    pre.append(n)
                    stack.extend(n.all_input_nodes())
            m = gb.build_model()
            missing = [repr(n) for n in pre if not any(n is q for q in m.nodes.values())]
            if missing:
                chk.violation(f"complete:{name}", f"[{name}] recursive inputs of the added nodes are missing from the built model: {missing[:3]}",
                              dict(reproduced=True, observed=dict(missing=missing, model_nodes=sorted(m.nodes)), note="concrete inspection"))
        chk.guarded(f"complete:{name}", f"[{name}] completeness of the built model", comp)
    # copy=True builds
    for name, gbf in {"seeded node": seeded_model, "unnamed nodes": unnamed_model, "seeded node with user-supplied seed": user_seed_model}.items():
        def two(name=name, gbf=gbf):
            gb = gbf()
            m1 = gb.build_model(copy=True)
            m2 = gb.build_model(copy=True)         # the builder and the caller's nodes stay usable
            d = state_equal(m1, m2)
            if d and name != "seeded node":
                chk.violation(f"copy-true:{name}", f"[{name}] two build_model(copy=True) calls give different models: {d}", dict(reproduced=True, note=d))
            if sorted(m1.nodes) != sorted(m2.nodes):
                chk.violation(f"copy-true-nodes:{name}", f"[{name}] two build_model(copy=True) calls give different node sets", dict(reproduced=True, observed=dict(first=sorted(m1.nodes), second=sorted(m2.nodes))))
            if any(n.model is not None for n in gb.nodes) or any(v.model is not None for v in gb.vars):
                chk.violation(f"copy-true-frozen:{name}", f"[{name}] build_model(copy=True) froze the caller's nodes", dict(reproduced=True))
            m3 = gb.build_model()
            if sorted(m3.nodes) != sorted(m1.nodes):
                chk.violation(f"copy-true-vs-false:{name}", f"[{name}] copy=True and copy=False builds differ in their node sets", dict(reproduced=True, observed=dict(copy=sorted(m1.nodes), plain=sorted(m3.nodes))))
        chk.guarded(f"copy-true:{name}", f"[{name}] build_model(copy=True)", two)
    # groups of a model built with copy=True (and of its deep copy): every member a group hands out is the MODEL's own variable / node
    def groups_own(how):
        m0 = fam["DistRegBuilder(np+p smooth)"]() if "DistRegBuilder(np+p smooth)" in fam else None
        if m0 is None:
            return []
        nodes, vars_ = m0.pop_nodes_and_vars()
        gb = lsl.GraphBuilder().add(*nodes.values(), *vars_.values())
        m = gb.build_model(copy=True) if how == "copy=True" else copy.deepcopy(gb.build_model()) if how == "deepcopy" else gb.build_model()
        pr = []
        if not m.groups():
            pr.append("the model lists no groups")
        for gname, g in m.groups().items():
            for key, member in g.nodes_and_vars.items():
                own = any(member is v for v in m.vars.values()) or any(member is n for n in m.nodes.values())
                if not own:
                    pr.append(f"group {gname!r} member {key!r} is not one of the model's own variables / nodes")
        return pr[:4]
    for how in ("plain", "copy=True", "deepcopy"):
        nm = f"groups of a model built {how}"
        pr = chk.guarded(f"groups:{how}", f"[{nm}]", groups_own, how)
        if pr:
            chk.violation(f"groups:{how}", f"[{nm}] " + "; ".join(pr), dict(reproduced=True, observed=dict(problems=pr), note="concrete inspection"))
        chk.enumerated.append(nm)

    # histories: nodes that were part of an earlier model (popped, or dropped without popping -- nodes hold only a weak reference to
    # their model) are rewired and built again; the new model's outputs must again be the exact inverse of its inputs
    def history(how, copy_flag):
        import gc
        a, b = lsl.Var(1.0, name="a"), lsl.Var(2.0, name="b")
        c = lsl.Var(lsl.Calc(lambda x, y: x + y, a, b), name="c")
        m = lsl.GraphBuilder().add(c).build_model()
        if how == "pop":
            m.pop_nodes_and_vars()
        del m
        gc.collect()
        c.value_node = lsl.Calc(lambda y: 10.0 * y, b)          # c no longer depends on a
        m = lsl.GraphBuilder().add(a, c).build_model(copy=copy_flag)
        pr = structure_problems(m)
        m.vars["a"].value = 5.0
        m.vars["b"].value = 7.0
        if float(m.vars["c"].value) != 70.0:
            pr.append(f"c = {float(m.vars['c'].value)} after setting b = 7 (c = 10 b)")
        return pr
    for how in ("pop", "drop-without-pop"):
        for copy_flag in (False, True):
            nm = f"build, {how}, rewire, build_model(copy={copy_flag})"
            pr = chk.guarded(f"history:{nm}", f"[{nm}]", history, how, copy_flag)
            if pr:
                chk.violation(f"history:{nm}", f"[{nm}] " + "; ".join(pr), dict(reproduced=True, observed=dict(problems=pr), note="concrete history on the real code"))
            chk.enumerated.append(f"history: {nm}")

    # a rejected build is a mutation attempt like any other: nodes of a live model cannot join a second model, and the attempt leaves the
    # first model exactly as it was (outputs still the inverse of inputs, assignments still propagate)
    def second_build(which):
        a = lsl.Var(1.0, name="a")
        b = lsl.Var(lsl.Calc(lambda x: 2.0 * x, a), name="b")
        c = lsl.Var(lsl.Calc(lambda x, y: x + y, a, b), name="c")
        m = lsl.GraphBuilder().add(c).build_model()
        attempt = {"GraphBuilder().add(a)": lambda: lsl.GraphBuilder().add(a).build_model(), "GraphBuilder().add(b)": lambda: lsl.GraphBuilder().add(b).build_model(),
                   "Model([a, c])": lambda: lsl.Model([a, c]), "GraphBuilder().add(c).build_model(copy=True)": None}[which]
        pr = []
        if attempt is not None:
            try:
                attempt()
                pr.append("a second model over nodes of a live model was accepted")
            except RuntimeError:
                pass
        else:
            lsl.GraphBuilder().add(c).build_model(copy=True)          # a copy build is allowed and must not touch the original either
        pr += structure_problems(m)
        m.vars["a"].value = 5.0
        if float(m.vars["b"].value) != 10.0 or float(m.vars["c"].value) != 15.0:
            pr.append(f"after the attempt, setting a = 5 gives b = {float(m.vars['b'].value)}, c = {float(m.vars['c'].value)} (expected 10, 15)")
        return pr
    for which in ("GraphBuilder().add(a)", "GraphBuilder().add(b)", "Model([a, c])", "GraphBuilder().add(c).build_model(copy=True)"):
        nm = f"second build attempt {which} over a live model"
        pr = chk.guarded(f"second-build:{which}", f"[{nm}]", second_build, which)
        if pr:
            chk.violation(f"second-build:{which}", f"[{nm}] the first model is damaged: " + "; ".join(pr), dict(reproduced=True, inputs=dict(attempt=which), observed=dict(problems=pr), note="concrete history on the real code"))
        chk.enumerated.append(f"history: {nm}")

    # a graph that hangs entirely off a user-declared total (nothing added to the builder explicitly): complete, named, and the total forwarded
    def only_total():
        a, b = lsl.Value(1.0), lsl.Value(2.0)
        c = lsl.Calc(lambda x, y: x - y, a, b)
        lp = lsl.Calc(lambda d: -d * d, c)
        gb = lsl.GraphBuilder()
        gb.log_prob_node = lp
        m = gb.build_model()
        pr = structure_problems(m)
        for nd in (a, b, c, lp):
            if not nd.name or nd.name not in m.nodes or m.nodes[nd.name] is not nd:
                pr.append(f"user node {nd.name!r} is not part of the model under a non-empty name")
        if abs(float(np.asarray(m.log_prob)) + 1.0) > 1e-6:
            pr.append(f"log_prob = {float(np.asarray(m.log_prob))}, the declared node's value is -1.0")
        return pr
    pr = chk.guarded("only-total", "building a graph reachable only through a user-declared log_prob node", only_total)
    if pr:
        chk.violation("only-total", "[builder with nothing added but a user-declared log_prob node] " + "; ".join(pr[:4]), dict(reproduced=True, observed=dict(problems=pr), note="concrete inspection of the built model"))
    chk.enumerated.append("graph reachable only through a user-declared log_prob node (unnamed nodes)")

    # rejected graphs: cycles and duplicate names
    def cyc1():
        v = lsl.Value(1.0, _name="v")
        c1 = lsl.Calc(lambda x: x, v, _name="c1", update_on_init=False)
        c2 = lsl.Calc(lambda x: x, c1, _name="c2", update_on_init=False)
        c1.set_inputs(c2)
        return lsl.GraphBuilder().add(c2)

    def cyc2():
        v = lsl.Value(1.0, _name="v")
        c1 = lsl.Calc(lambda x, y: x, v, v, _name="c1", update_on_init=False)
        c1.set_inputs(v, c1)
        return lsl.GraphBuilder().add(c1)

    def dup_nodes():
        return lsl.GraphBuilder().add(lsl.Calc(lambda x, y: x + y, lsl.Value(1.0, _name="same"), lsl.Value(2.0, _name="same"), _name="c", update_on_init=False))

    def dup_vars():
        return lsl.GraphBuilder().add(lsl.Var(lsl.Calc(lambda x, y: x + y, lsl.Var(1.0, name="same"), lsl.Var(2.0, name="same"), update_on_init=False), name="c"))
    def dup_vars_only():
        # two different variables named "x" whose nodes all carry distinct names (the first one is named after its construction)
        v1 = lsl.Var(lsl.Value(1.0, _name="a"))
        v1.name = "x"
        v2 = lsl.Var(2.0, name="x")
        names = [n.name for v in (v1, v2) for n in v.nodes]
        if len(set(names)) != len(names):
            raise Inconclusive(f"the two variables share a node name in this tree ({names}): member not constructible")
        return lsl.GraphBuilder().add(lsl.Var(lsl.Calc(lambda a, b: a + b, v1, v2, update_on_init=False), name="total"))

    def dup_groups():
        # two different groups of the same name
        a, b = lsl.Var(1.0, name="ga"), lsl.Var(2.0, name="gb")
        lsl.Group("g", a=a)
        lsl.Group("g", b=b)
        return lsl.GraphBuilder().add(lsl.Var(lsl.Calc(lambda x, y: x + y, a, b, update_on_init=False), name="total"))
    rejected = {"2-cycle": cyc1, "self-loop": cyc2, "duplicate node names": dup_nodes, "duplicate variable names": dup_vars,
                "duplicate variable names, all node names distinct": dup_vars_only, "duplicate group names": dup_groups}
    for name, gbf in rejected.items():
        for how in ("build_model()", "build_model(copy=True)", "Model(nodes_and_vars)"):
            try:
                gb = gbf()
            except Inconclusive as ex:
                chk.harness_error(f"rejected:{name}", str(ex))
                break
            try:
                if how == "build_model()":
                    gb.build_model()
                elif how == "build_model(copy=True)":
                    gb.build_model(copy=True)
                else:
                    lsl.Model(list(gb.nodes) + list(gb.vars))
                chk.violation(f"accepted:{name}", f"a graph with a {name} was accepted by {how}", dict(reproduced=True, inputs=dict(entry=how), note="no exception raised"))
                break
            except Exception:
                pass
    chk.extra["concrete_family"] = dict(models=n_models, rejected_graphs=len(rejected), note="structural facts and round trips are concrete executions (not solver-quantified)")
    chk.enumerated += [f"graph {k}" for k in fam] + list(rejected)


def main():
    chk = Check("C15")
    H = "vf.ch.h_c15"
    conds = [Cond(H, "check_names", "generated node names are non-empty and collide with nothing (three symbolic names of <= 2 characters, so collisions with generated n0, n1 are reachable); user names are kept", 300),
             Cond(H, "check_var_names", "generated variable names are non-empty and unique; user names are kept", 300),
             Cond(H, "check_frozen_node", "every structural mutator of a node that belongs to a model (name, needs_seed, add_inputs, set_inputs, function, at, distribution, per_obs) raises and leaves the node unchanged "
                  "(symbolic mutator, target node, argument)", 600),
             Cond(H, "check_frozen_var", "every structural mutator of a variable that belongs to a model (name, observed, parameter, dist_node, value_node) raises and leaves it unchanged "
                  "(symbolic mutator, target variable, argument; incl. the empty name and a variable with a custom value-node name)", 600)]
    run_conditions(chk, conds)
    concrete_checks(chk)
    chk.skipped.append(("build-level name conditions (duplicate <=> rejected, reserved `_model` prefix <=> rejected) with symbolic names",
                        "not confirmed by CrossHair within 300 s even for names of <= 1 character (string hashing in collections.Counter and the `_model_*` name formatting realise or fork per comparison); "
                        "covered only by the concrete rejected-graph members below"))
    chk.functions += ["liesel.model.model.GraphBuilder._set_missing_names/_do_set_missing_names/_all_nodes_and_vars/build_model", "liesel.model.nodes.no_model_setter / no_model_method guards on Node, Calc, Dist, Var",
                      "liesel.model.model.Model.__init__/pop_nodes_and_vars/copy_nodes_and_vars/_copy_computational_model", "liesel.model.model.save_model/load_model"]
    chk.bounds += ["names: three symbolic strings of <= 2 characters (nodes), two (variables); mutator argument strings of <= 3 characters", "graph shapes: enumerated family, concrete"]
    chk.assume("reduced claim: the solver quantifies names, mutator choice, target and argument; graph shapes are a fixed family and the round trips run concretely", "a seeded node gets a fresh seed value when rebuilt (seed nodes are model-owned)")
    return chk.finish(technique=TECH)
