"""C14 Transforming a variable preserves the model (change of variables) (Engine B, real mode)."""
import warnings

import jax
import jax.numpy as jnp
import numpy as np
import z3

from ..harness import Check, Enc, Obligation, all_eq, cells

TECH = ("jaxpr of LieselInterface.update_state on the transformed model traced together with the change-of-variables formula evaluated by TFP directly "
        "(log p(b(t)) + log|db/dt|, b(t)); interpreted over z3 reals (exp/log/lgamma/log1p uninterpreted, inverse-pair and exp-sum axioms); z3/nlsat decides each negated obligation")


def tf():
    import tensorflow_probability.substrates.jax.bijectors as tfb
    import tensorflow_probability.substrates.jax.distributions as tfd
    return tfd, tfb


def cases(tier):
    tfd, tfb = tf()
    C = []
    # (label, dist class, params, bijector spec, initial value, entry points)
    # bijector spec: ("instance", factory) | ("class", cls, args, kwargs) | ("default",)
    C.append(("InverseGamma/Exp", tfd.InverseGamma, dict(concentration=2.0, scale=0.5), ("instance", lambda: tfb.Exp()), 1.3, ["var", "builder"]))
    C.append(("Beta/Sigmoid", tfd.Beta, dict(concentration1=2.0, concentration0=3.0), ("instance", lambda: tfb.Sigmoid()), 0.3, ["var"]))
    C.append(("Normal/Scale(class, model-dependent kwarg)", tfd.Normal, dict(loc=0.5, scale=2.0), ("class", tfb.Scale, (), dict(scale=3.0)), 1.3, ["var", "builder"]))
    C.append(("Normal/Shift(class, model-dependent positional arg)", tfd.Normal, dict(loc=0.5, scale=2.0), ("class", tfb.Shift, (1.5,), {}), 1.3, ["var"]))
    C.append(("Exponential/Exp", tfd.Exponential, dict(rate=1.5), ("instance", lambda: tfb.Exp()), 0.7, ["var"]))
    C.append(("Uniform/default(parameter-dependent Sigmoid)", tfd.Uniform, dict(low=-1.0, high=2.0), ("default",), 0.5, ["var", "auto", "auto-input"]))
    C.append(("InverseGamma/default", tfd.InverseGamma, dict(concentration=2.0, scale=0.5), ("default",), 1.3, ["auto"]))
    # a distribution on the whole real line: its default event-space bijector is the identity -- still a transformation like any other
    # (new unconstrained variable with the density and the parameter flag, original without a distribution of its own)
    C.append(("Normal/default(Identity)", tfd.Normal, dict(loc=0.5, scale=2.0), ("default",), 1.3, ["var", "auto"]))
    # the initial value given as a plain Python int (its image under the inverse bijector is not an integer)
    C.append(("LogNormal/Exp, Python-int initial value", tfd.LogNormal, dict(loc=0.5, scale=1.0), ("instance", lambda: tfb.Exp()), 3, ["var", "auto-default"]))
    C.append(("Gamma/Exp, latent variable (neither parameter nor observed)", tfd.Gamma, dict(concentration=2.0, rate=0.5), ("instance", lambda: tfb.Exp()), 1.3, ["var"]))
    C.append(("InverseGamma/default, latent variable (neither parameter nor observed)", tfd.InverseGamma, dict(concentration=2.0, scale=0.5), ("default",), 1.3, ["auto"]))
    C.append(("HalfNormal/Exp", tfd.HalfNormal, dict(scale=1.5), ("instance", lambda: tfb.Exp()), 0.8, ["var"]))
    C.append(("Gamma vector (2,), per_obs=False / Exp", tfd.Gamma, dict(concentration=2.0, rate=0.5), ("instance", lambda: tfb.Exp()), (1.3, 0.6), ["var", "builder", "auto-default"]))
    # distribution inputs handed over positionally (Dist.inputs instead of Dist.kwinputs): the transformed distribution has to carry both kinds over
    C.append(("Gamma/Exp, positional dist inputs", tfd.Gamma, dict(concentration=2.0, rate=0.5), ("instance", lambda: tfb.Exp()), 1.3, ["var", "builder", "auto-default"]))
    if tier == "thorough":
        C.append(("Gamma/Exp", tfd.Gamma, dict(concentration=2.0, rate=0.5), ("instance", lambda: tfb.Exp()), 1.3, ["var", "builder"]))
        C.append(("HalfCauchy/Softplus", tfd.HalfCauchy, dict(loc=0.0, scale=25.0), ("instance", lambda: tfb.Softplus()), 1.3, ["var"]))
        C.append(("Gamma/default(Softplus)", tfd.Gamma, dict(concentration=2.0, rate=0.5), ("default",), 1.3, ["var", "auto"]))
        C.append(("Normal/Softplus(class, positional hinge)", tfd.Normal, dict(loc=0.5, scale=2.0), ("class", tfb.Softplus, (2.0,), {}), 1.3, ["var"]))
    return C


def build(label, D, params, bij, v0, entry):
    import liesel.model as lsl
    pv = {k: lsl.Var(v, name=f"p_{k}") for k, v in params.items()}
    vec = isinstance(v0, tuple)
    dist = lsl.Dist(D, *pv.values()) if "positional dist inputs" in label else lsl.Dist(D, **pv)
    if vec:
        dist.per_obs = False
    latent = "latent" in label           # a variable that is neither a parameter nor observed: there is no flag to move
    x = (lsl.Var if latent else lsl.param)(jnp.asarray(v0) if vec else v0, dist, name="x")
    bvars = {}
    gb = lsl.GraphBuilder()
    if bij[0] == "instance":
        target = bij[1]()
        args, kwargs = (), {}
    elif bij[0] == "class":
        target = bij[1]
        args = tuple(lsl.Var(a, name=f"b_arg{i}") for i, a in enumerate(bij[2]))
        kwargs = {k: lsl.Var(v, name=f"b_{k}") for k, v in bij[3].items()}
        bvars = {f"b_arg{i}": a for i, a in enumerate(bij[2])} | {f"b_{k}": v for k, v in bij[3].items()}
    else:
        target, args, kwargs = None, (), {}
    before = np.asarray(x.value).copy()
    build.after_transform = "n/a"
    if entry == "var":
        x.transform(target, *args, **kwargs)
        build.after_transform = None if x.value is None else np.asarray(x.value).copy()
        gb.add(x)
    elif entry == "builder":
        with warnings.catch_warnings():
            warnings.simplefilter("ignore")
            gb.add(x)
            gb.transform(x, target, *args, **kwargs)
        build.after_transform = None if x.value is None else np.asarray(x.value).copy()
    elif entry in ("auto", "auto-default"):
        x.auto_transform = True
        gb.add(x)
    elif entry == "auto-input":
        # the flagged variable is only reachable as an input of what is added to the builder
        import tensorflow_probability.substrates.jax.distributions as tfd_
        x.auto_transform = True
        resp = lsl.obs(jnp.zeros(np.shape(np.asarray(v0))) + 0.3, lsl.Dist(tfd_.Normal, loc=x, scale=1.0), name="resp")
        gb.add(resp)
    model = gb.build_model()
    return model, bvars, before


def scenario(chk, label, D, params, bij, v0, entry):
    import liesel.goose as gs
    model, bvars, before = build(label, D, params, bij, v0, entry)
    name = f"{label} via {'Var.transform' if entry == 'var' else 'GraphBuilder.transform' if entry == 'builder' else 'auto_transform (variable reachable only as an input)' if entry == 'auto-input' else 'auto_transform'}"
    if entry == "auto-default":
        name = f"{label.split('/')[0].strip()} / default bijector via auto_transform"
    # structural facts (concrete)
    problems = []
    at = getattr(build, "after_transform", "n/a")
    if not isinstance(at, str):
        if at is None:
            problems.append("right after the transformation (before any model is built) the original variable has no value")
        elif at.shape != before.shape or not np.allclose(at, before, rtol=1e-5, atol=1e-6):
            problems.append(f"right after the transformation the original variable's value is {at.tolist()} instead of {before.tolist()}")
    vars_ = model.vars
    if "x_transformed" not in vars_:
        problems.append("no variable x_transformed in the built model")
    else:
        xt, xo = vars_["x_transformed"], vars_["x"]
        if xo.has_dist:
            problems.append("original variable still has a distribution of its own")
        was_param = "latent" not in label
        if xt.parameter != was_param or xo.parameter:
            problems.append(f"parameter flag not moved (original was {'a' if was_param else 'no'} parameter; afterwards new={xt.parameter}, original={xo.parameter})")
        if not xt.has_dist:
            problems.append("new variable has no distribution")
        after = np.asarray(xo.value)
        if after.shape != before.shape or not np.allclose(after, before, rtol=1e-5, atol=1e-6):
            problems.append(f"original variable's value changed from {before.tolist()} to {after.tolist()}")
    if problems:
        chk.violation(f"{name}:structure", f"[{name}] " + "; ".join(problems), dict(reproduced=True, note="read off the built model", observed=dict(problems=problems)))
        if "x_transformed" not in vars_:
            return []
    iface = gs.LieselInterface(model)
    st = model.state
    pv0 = {f"p_{k}": jnp.asarray(float(v)) for k, v in params.items()} | {k: jnp.asarray(float(v)) for k, v in bvars.items()}
    t0 = jnp.asarray(np.asarray(model.vars["x_transformed"].value, dtype=np.float32))
    per_obs = "per_obs=False" not in label          # the option set on the ORIGINAL distribution node (not read back from the model under test)

    def f(t, pvals):
        new = iface.update_state({"x_transformed": t} | pvals, st)
        base = D(**{k: pvals[f"p_{k}"] for k in params})
        if entry == "auto-default":
            b = base.experimental_default_event_space_bijector()
        elif bij[0] == "instance":
            b = bij[1]()
        elif bij[0] == "class":
            b = bij[1](*[pvals[f"b_arg{i}"] for i in range(len(bij[2]))], **{k: pvals[f"b_{k}"] for k in bij[3]})
        else:
            b = base.experimental_default_event_space_bijector()
        fwd = b.forward(t)
        ref_lp = base.log_prob(fwd) + b.forward_log_det_jacobian(t)
        return dict(lp=new["x_transformed_log_prob"].value, x=new["x_value"].value, ref_lp=ref_lp if per_obs else jnp.sum(ref_lp), ref_x=fwd,
                    lprior=new["_model_log_prior"].value)
    pre = "".join(ch for ch in name if ch.isalnum())[:40] + entry
    from ..jx2smt import sym_array
    tsym = sym_array(f"t_{pre}", t0.shape)
    ps = {k: np.array(z3.Real(f"{k}_{pre}"), dtype=object).reshape(()) for k in pv0}
    dom = {c.decl().name(): (float(v) - 0.4, float(v) + 0.4) for c, v in zip(cells(tsym), np.asarray(t0).reshape(-1))}
    for k, v in pv0.items():
        v = float(v)
        dom[f"{k}_{pre}"] = (0.8 * v, 1.2 * v) if v > 0 else ((1.2 * v, 0.8 * v) if v < 0 else (-0.2, 0.2))
    enc = chk.note_enc(Enc(f"transformed model[{name}]", f, (t0, pv0), (tsym, ps), domain=dom))
    hyps = []
    for k, v in pv0.items():
        if float(v) > 0 and ("scale" in k or "rate" in k or "concentration" in k or k.startswith("b_")):
            hyps.append(cells(ps[k])[0] > 0)
    if D.__name__ == "Uniform":
        hyps.append(cells(ps["p_low"])[0] < cells(ps["p_high"])[0])
    obs = []
    sch = ("pos", "inv", "unit", "recip")
    obs.append(Obligation(f"[{name}] original variable = bijector image of the new variable, x = b(t)", [enc], lambda V: (hyps, all_eq(V.out["x"], V.out["ref_x"])),
                          signature=f"{name}:value", schemas=sch, timeout_s=60))

    def g_lp(V):
        tol = z3.RealVal("1/100000")
        return hyps, z3.And(*[z3.And(a - b <= tol, a - b >= -tol) for a, b in zip(cells(V.out["lp"]), cells(V.out["ref_lp"]))])
    obs.append(Obligation(f"[{name}] new variable's log-density at t = log p(b(t)) + log|db/dt|", [enc], g_lp, signature=f"{name}:density", schemas=sch, timeout_s=60))
    latent = "latent" in label
    obs.append(Obligation(f"[{name}] " + ("the original variable was no parameter: the transformed density is no log-prior term either" if latent else "the transformed density is the model's log-prior term (flag moved)"), [enc],
                          lambda V: (hyps, cells(V.out["lprior"])[0] == (0 if latent else sum(cells(V.out["lp"])))),
                          signature=f"{name}:prior", schemas=sch, timeout_s=60))
    chk.validate(enc)
    return obs


def chain_scenario(chk, first):
    """a transformed variable transformed again: x ~ Uniform(low, high); t1 = x.transform(<first>); t2 = t1.transform(Scale(2)).
    x must remain the image of the NEW free variable t2 under the composed map, and t2 carries the density"""
    import liesel.goose as gs
    import liesel.model as lsl
    tfd, tfb = tf()
    low, high = lsl.Var(-1.0, name="p_low"), lsl.Var(2.0, name="p_high")
    x = lsl.param(0.5, lsl.Dist(tfd.Uniform, low=low, high=high), name="x")
    t1 = x.transform(None) if first == "default" else x.transform(tfb.Sigmoid, low=low, high=high)
    t2 = t1.transform(tfb.Scale(2.0))
    model = lsl.GraphBuilder().add(x).build_model()
    name = f"Uniform / {first} bijector, then Scale(2) on the transformed variable"
    tname = t2.name
    problems = [f"variable {v} missing from the built model" for v in ("x", t1.name, tname) if v not in model.vars]
    if problems:
        chk.violation(f"{name}:structure", f"[{name}] " + "; ".join(problems), dict(reproduced=True, observed=dict(problems=problems, variables=sorted(model.vars)), note="read off the built model"))
        return []
    iface = gs.LieselInterface(model)
    st = model.state
    t0 = jnp.asarray(np.asarray(model.vars[tname].value, dtype=np.float32))

    def f(t, lo, hi):
        new = iface.update_state({tname: t, "p_low": lo, "p_high": hi}, st)
        base = tfd.Uniform(lo, hi)
        b1 = base.experimental_default_event_space_bijector() if first == "default" else tfb.Sigmoid(low=lo, high=hi)
        b2 = tfb.Scale(2.0)
        u = b2.forward(t)
        return dict(x=new["x_value"].value, lp=new[f"{tname}_log_prob"].value, ref_x=b1.forward(u),
                    ref_lp=base.log_prob(b1.forward(u)) + b1.forward_log_det_jacobian(u) + b2.forward_log_det_jacobian(t), lprior=new["_model_log_prior"].value)
    tag = "chain" + first
    ts, los, his = z3.Real(f"t_{tag}"), z3.Real(f"lo_{tag}"), z3.Real(f"hi_{tag}")
    sc = lambda v: np.array(v, dtype=object).reshape(())
    enc = chk.note_enc(Enc(f"transformed model[{name}]", f, (t0, -1.0, 2.0), (sc(ts), sc(los), sc(his)),
                           domain={f"t_{tag}": (float(t0) - 0.4, float(t0) + 0.4), f"lo_{tag}": (-1.2, -0.8), f"hi_{tag}": (1.6, 2.4)}))
    hyps = [los < his]
    sch = ("pos", "inv", "unit", "recip")
    tol = z3.RealVal("1/100000")
    obs = [Obligation(f"[{name}] original variable = image of the new free variable under the composed bijectors", [enc], lambda V: (hyps, all_eq(V.out["x"], V.out["ref_x"])),
                      signature=f"{name}:value", schemas=sch, timeout_s=60),
           Obligation(f"[{name}] the new variable's log-density = log p(b1(b2(t))) + log|db1| + log|db2|, and it is the model's prior term", [enc],
                      lambda V: (hyps, z3.And(cells(V.out["lp"])[0] - cells(V.out["ref_lp"])[0] <= tol, cells(V.out["lp"])[0] - cells(V.out["ref_lp"])[0] >= -tol,
                                              cells(V.out["lprior"])[0] == cells(V.out["lp"])[0])), signature=f"{name}:density", schemas=sch, timeout_s=60)]
    chk.validate(enc)
    return obs


def main():
    chk = Check("C14")
    obs = []
    fam = []
    for label, D, params, bij, v0, entries in cases(chk.tier):
        for entry in entries:
            fam.append(f"{label} / {entry}")
            res = chk.guarded(f"{label}/{entry}:trace", f"[{label} via {entry}] building and tracing the transformed model", scenario, chk, label, D, params, bij, v0, entry)
            if res:
                obs += res
    for first in ("default", "class"):
        fam.append(f"Uniform / {first} bijector, then Scale(2) on the transformed variable")
        res = chk.guarded(f"chain:{first}:trace", f"[chained transformation, first = {first}] building and tracing", chain_scenario, chk, first)
        if res:
            obs += res
    chk.run(obs)
    # pairs whose identity needs more than the instantiated axioms are reported as skipped, never as passed
    keep = []
    for n, why in chk.inconclusive:
        if "solver verdict unknown" in why or "did not reproduce" in why:
            chk.skipped.append((n, "identity not closed by the instantiated exp/log axioms (Softplus-type Jacobians): " + why[:120]))
        else:
            keep.append((n, why))
    chk.inconclusive = keep
    chk.functions += ["liesel.model.nodes.Var.transform", "liesel.model.nodes._transform_var_with_bijector_instance / _transform_var_with_bijector_class",
                      "liesel.model.model.GraphBuilder.transform (deprecated) / build_model (auto_transform)", "liesel.goose.interface.LieselInterface.update_state"]
    chk.bounds += ["scalar variable; t, distribution parameters and bijector arguments symbolic reals (parameters positive where required)", "one evaluation of the transformed model"]
    chk.enumerated += fam
    chk.assume("TFP's distributions and bijectors called directly are the reference for log p, b and log|db/dt|", "real arithmetic; exp/log/lgamma uninterpreted with positivity, inverse-pair, unit and reciprocal axioms",
               "float32 constant residue tolerated up to 1e-5", "fresh bijector instances in the oracle (TFP caches forward/inverse pairs per instance)")
    return chk.finish(technique=TECH)
