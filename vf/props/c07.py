"""C07 The engine drives every kernel through the documented lifecycle (Engine A, CrossHair)."""
import itertools

from ..chrun import Cond, run_conditions
from ..harness import Check

TECH = ("CrossHair symbolic execution (z3 per path) of the real Engine / KernelSequence / EpochManager / TransitionMixin / TuningMixin driving recording kernels, with JAX/numpy replaced by a "
        "pure-Python stand-in (one representative chain); durations, thinning, chunk, history requests, kernel-state storage and late appending symbolic; one process per epoch-type sequence")


def type_sequences(n):
    """valid type sequences of length n after the initial epoch: warmup types (1,2,3) then posterior (4)"""
    out = []
    for a in range(n, -1, -1):
        for w in itertools.product((1, 2, 3), repeat=a):
            out.append(tuple(w) + (4,) * (n - a))
    return out


# (type sequence, needs_history flags, store_kernel_states, epochs configured up-front)
QUICK = [((1, 2, 4), "10", 1, 3), ((2, 3, 4), "01", 0, 1), ((1, 4, 4), "10", 1, 2), ((3, 4, 4), "00", 1, 0), ((4, 4, 4), "11", 0, 1), ((2, 1, 3), "11", 1, 2), ((2, 2, 1), "01", 1, 0), ((3, 3, 4), "10", 0, 3)]


def plan(tier):
    if tier == "quick":
        return QUICK
    out = []
    for k, s in enumerate(type_sequences(3)):
        out.append((s, ["10", "01", "11", "00"][k % 4], k % 2, k % 4))
        out.append((s, ["01", "11", "00", "10"][k % 4], (k + 1) % 2, (k + 2) % 4))
    return out


def main():
    chk = Check("C07")
    conds = []
    pl = plan(chk.tier)
    for qi, (s, nh, store, up) in enumerate(pl):
        qg = qi % 3
        ts = ",".join(map(str, s))
        conds.append(Cond("vf.ch.h_engine", "check_lifecycle_q" if chk.tier == "quick" else "check_lifecycle", f"lifecycle for epoch types INITIAL,{ts} (needs_history={nh}, {up} of 3 epochs configured up-front, others appended while sampling): "
                          "start / duration transitions with within-epoch time 0..d-1 and continuing global time / end / tune iff adaptation (with that epoch's recorded history on request) / "
                          "exactly one end_warmup immediately before the first posterior epoch",
                          timeout_s=600 if chk.tier == "quick" else 1200, env={"TYPES": ts, "NK": "2", "NH": nh, "STORE": str(store), "UPFRONT": str(up), "QG": str(qg), "WERR": ["", "k1", "k0"][qi % 3]}, signature=f"lifecycle:{ts}"))
    s, nh, store, up = pl[0]
    conds.append(Cond("vf.ch.h_engine", "check_lifecycle_chunks", f"lifecycle when epochs are sampled in several JIT chunks of 2 or 3 iterations (durations chunk*q, q <= 2; epoch types INITIAL,{','.join(map(str, s))}): "
                      "within-epoch time keeps running 0..d-1 across chunks, global time continues, tune sees the whole epoch's history", timeout_s=900,
                      env={"TYPES": ",".join(map(str, s)), "NK": "2", "NH": nh, "STORE": str(store), "UPFRONT": str(up), "QG": "0", "WERR": ""}, signature="lifecycle:multi-chunk"))
    if chk.tier == "thorough":
        for qg, (s4, nh, store, up) in enumerate([((1, 2, 3, 4), "10", 1, 2), ((2, 2, 4, 4), "01", 1, 4), ((1, 3, 4, 4), "11", 0, 1), ((3, 1, 2, 4), "10", 1, 3), ((1, 4, 4, 4), "01", 0, 0), ((2, 1, 1, 3), "11", 1, 2)]):
            qg = qg % 3
            ts = ",".join(map(str, s4))
            conds.append(Cond("vf.ch.h_engine", "check_all4", f"four epochs INITIAL,{ts} (needs_history={nh}, {up}/4 up-front): lifecycle, stored chains and key terms", timeout_s=2400,
                              env={"TYPES": ts, "NK": "2", "NH": nh, "STORE": str(store), "UPFRONT": str(up), "QG": str(qg), "WERR": ["k0", "", "k1"][qg]}, signature=f"four-epochs:{ts}"))
    # the fake environment is validated on every run against the real Engine on real JAX (jit disabled) on three fixed schedules
    from ..ch import validate_fake
    ok, msg, n = validate_fake.compare()
    chk.extra["fake_environment_validation"] = dict(ok=ok, message=msg, compared_calls=n, schedules=[str(s_) for s_ in validate_fake.SCHEDULES])
    chk.extra["traces_validated_against_impl"] = 3 if ok else 0
    if not ok:
        chk.harness_error("fake-environment", "fake environment disagrees with real JAX: " + msg)
    run_conditions(chk, conds)
    chk.functions += ["liesel.goose.engine.Engine.__init__/sample_all_epochs/sample_next_epoch/append_epoch/_start_epoch/_kernel_start_epoch/_sample_for_duration/_sample_many/_end_epoch/_tune_kernels/_end_warmup/_split_prng_key",
                      "liesel.goose.kernel_sequence.KernelSequence.*", "liesel.goose.epoch.EpochManager/EpochState", "liesel.goose.kernel.TransitionMixin.transition / TuningMixin.tune",
                      "liesel.goose.chain.EpochChainManager/ListEpochChain (history handed to tune)"]
    chk.bounds += ["3 epochs after the initial one; symbolic durations <= 2,2,3 (thorough: 3,3,4), thinning <= duration, chunk <= 2 (thorough 3) dividing all durations", "2 kernels; per-kernel needs_history, store_kernel_states, which kernel (none / first / second) reports a non-zero end_warmup error code, and the number of epochs configured up-front (others appended one at a time after sampling started) enumerated per condition", "one representative chain (vmap = identity)"]
    chk.enumerated += [f"epoch types INITIAL,{','.join(map(str, s))} needs_history={nh} store_kernel_states={st} upfront={up}" for s, nh, st, up in pl]
    chk.assume("the fake environment is compared on every run with the real Engine on real JAX (jit disabled) on three fixed schedules: call logs, history lengths and stored chains must be identical",
               "fake environment contracts: vmap(f)=f on one chain, jit(f)=f, lax.scan = loop + stacking, lax.cond = if, random.split = free-algebra key terms, expand_dims/concatenate on per-time cell lists, np.arange/% /== /mask indexing on integer lists",
               "what kernels that do not ask for history receive is left unconstrained when another kernel asks (the engine hands the same history to every kernel)")
    return chk.finish(technique=TECH)
