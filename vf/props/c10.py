"""C10 Sampling is reproducible; chains independent; initial values honoured (Engines A and B)."""
import json
import os
import subprocess
import sys

import jax
import jax.numpy as jnp
import numpy as np
import z3

from ..chrun import Cond, run_conditions
from ..harness import Check, Enc, Obligation, Result, all_eq, cells, colliding_draw_keys, key_z3, symlike
from ..jx2smt import Interp, KeyTerm, KeyWord, is_sym, root_key, sym_array
from .c07 import plan

TECH = ("CrossHair symbolic execution of the real Engine (key terms as a free algebra: every kernel call's key distinct and derived from the seed only; integer seed = PRNG key); "
        "jaxprs of the real jit(vmap(Engine._sample_many)) (2 chains) and of EngineBuilder.build's jitter step interpreted over z3 reals with draws memoised by key term: non-interference "
        "between chains, first sample = jittered initial value; key terms compared as z3 datatype terms")


def sc(v):
    return np.array(v, dtype=object).reshape(())


# ------------------------------------------------------------------ B: non-interference between chains
def noninterference(chk, C=2, CH=2, kind="rw"):
    import liesel.goose as gs
    from liesel.goose.engine import Engine
    from liesel.goose.epoch import EpochConfig, EpochType
    from liesel.goose.kernel_sequence import KernelSequence
    from liesel.goose.pytree import stack_leaves
    model = gs.DictInterface(lambda s: -0.5 * jnp.sum((s["x"] - s["m"]) ** 2))
    k = gs.RWKernel(["x"]) if kind == "rw" else gs.IWLSKernel(["x"])
    k.set_model(model)
    k.identifier = "k0"
    cfgs = [EpochConfig(EpochType.INITIAL_VALUES, 1, 1, None), EpochConfig(EpochType.FAST_ADAPTATION, CH, 1, None)]
    ms = stack_leaves([{"x": jnp.zeros(()), "m": jnp.ones(())} for _ in range(C)])
    e = Engine(jax.random.split(jax.random.PRNGKey(0), C), ms, KernelSequence([k]), cfgs, CH, model, ["x"], show_progress=False)
    e.sample_next_epoch()
    e._start_epoch()
    e._kernel_start_epoch()
    keys = e._split_prng_key(CH)
    args = (keys, e.current_epoch, e._kernel_states, e._model_states)
    jp = jax.make_jaxpr(e._sample_many_jitted)(*args)
    flat = jax.tree_util.tree_leaves(args)
    paths = [jax.tree_util.keystr(p) for p, _ in jax.tree_util.tree_flatten_with_path(args)[0]]
    memo = {}

    def keyarr():
        out = np.empty((C, CH, 2), dtype=object)
        for c in range(C):
            for t in range(CH):
                kt = KeyTerm(("root", "chain%d_t%d" % (c, t)))
                out[c, t, 0], out[c, t, 1] = KeyWord(kt, 0), KeyWord(kt, 1)
        return out

    def evaluate(tag):
        I = Interp("real", memo=memo, tag=tag)
        vals = []
        for p, a in zip(paths, flat):
            a = np.asarray(a)
            if p == "[0]":
                vals.append(keyarr())
            elif a.dtype.kind in "iub":
                vals.append(a)
            else:
                v = np.empty(a.shape, dtype=object)
                for c in range(C):          # chain 0: shared symbols; other chains: different symbols per evaluation
                    v[c] = z3.Real(f"ni{C}{CH}{kind}" + "".join(ch for ch in p if ch.isalnum()) + f"_c{c}" + ("" if c == 0 else tag))
                vals.append(v)
        outs = I.eval_closed(jp, *vals)
        return I, outs
    I1, o1 = evaluate("_A")
    I2, o2 = evaluate("_B")
    diffs = []
    for a, b in zip(o1, o2):
        a, b = (I1.lift(a) if not is_sym(a) else a), (I2.lift(b) if not is_sym(b) else b)
        if a.ndim >= 1 and a.shape[0] == C:
            for x_, y_ in zip(cells(a[0]), cells(b[0])):
                if z3.is_expr(x_) and z3.is_expr(y_):
                    diffs.append(x_ != y_)
    chk.functions += [f"liesel.goose.engine.Engine._sample_many (jit + vmap over {C} chains, chunk of {CH} adaptive {kind.upper()} transitions)"]
    from .. import smt
    hy = list(I1.side) + list(I2.side)
    verdict, model_, secs, info = smt.check_sat(hy + [z3.Or(*diffs)], 120, "auto", ("pos", "inv", "unit"))

    class _Ob:
        name = f"[{C} chains, chunk {CH}, {kind.upper()}] chain 0's outputs of a jitted chunk ({len(diffs)} cells: states, kernel states, infos, stored positions) do not depend on the other chains' inputs"
        signature = "non-interference"
    if verdict == "unsat":
        r = Result(_Ob, "unsat", secs, info)
        tv, _, ts, _ = smt.check_sat(hy, 30, "auto")
        r.twin = tv
        chk.record(r)
    elif verdict == "sat":
        # replay: run the real jitted function twice with different chain-1 inputs
        a1 = jax.tree_util.tree_map(lambda x: x, args)
        ms2 = dict(e._model_states)
        ms2 = {kk: vv.at[1].set(vv[1] + 3.7) for kk, vv in e._model_states.items()}
        r1 = e._sample_many_jitted(keys, e.current_epoch, e._kernel_states, e._model_states)
        r2 = e._sample_many_jitted(keys, e.current_epoch, e._kernel_states, ms2)
        l1 = [np.asarray(x)[0] for x in jax.tree_util.tree_leaves(r1) if np.ndim(x) >= 1 and np.shape(x)[0] == C]
        l2 = [np.asarray(x)[0] for x in jax.tree_util.tree_leaves(r2) if np.ndim(x) >= 1 and np.shape(x)[0] == C]
        differs = any(not np.array_equal(x, y, equal_nan=True) for x, y in zip(l1, l2))
        chk.record(Result(_Ob, "sat", secs, info, replay=dict(reproduced=bool(differs), note="chain 1's initial state shifted by 3.7; chain 0's outputs " + ("changed" if differs else "did not change"))))
    else:
        chk.record(Result(_Ob, "unknown", secs, info))


def init_independence(chk, C=3):
    """Engine.__init__: the kernel state of chain c is the kernel's init_state at chain c's OWN initial model state (a kernel whose initial
    step size depends on the start value makes the dependence visible)"""
    import liesel.goose as gs
    from liesel.goose.engine import Engine
    from liesel.goose.epoch import EpochConfig, EpochType
    from liesel.goose.kernel_sequence import KernelSequence
    from liesel.goose.rw import RWKernelState
    model = gs.DictInterface(lambda s: -0.5 * jnp.sum((s["x"] - s["m"]) ** 2))

    class StartScaledRW(gs.RWKernel):
        def init_state(self, prng_key, model_state):
            return RWKernelState(step_size=0.1 + model_state["x"] * model_state["x"])
    k = StartScaledRW(["x"])
    k.set_model(model)
    k.identifier = "k0"
    cfgs = [EpochConfig(EpochType.INITIAL_VALUES, 1, 1, None), EpochConfig(EpochType.POSTERIOR, 2, 1, None)]
    seeds = jax.random.split(jax.random.PRNGKey(0), C)

    def f(xs):
        e = Engine(seeds, {"x": xs, "m": jnp.ones(C)}, KernelSequence([k]), cfgs, 2, model, ["x"], show_progress=False)
        return e._kernel_states[0].step_size
    from ..jx2smt import sym_array as _sa
    xs = _sa("init_x", (C,))
    enc = chk.note_enc(Enc(f"Engine.__init__: kernel states of {C} chains", f, (jnp.array([0.2, 0.5, -0.7][:C]),), (xs,)))

    def goal(V):
        out = V.out
        if np.shape(out) != (C,):
            return [], z3.BoolVal(False)
        return [], z3.And(*[out[c] == V.c(np.float32(0.1)) + xs[c] * xs[c] for c in range(C)])
    chk.functions += ["liesel.goose.engine.Engine.__init__ (kernel-state initialisation, vmap over chains)"]
    return [Obligation(f"Engine.__init__: each of the {C} chains' kernel states is init_state at that chain's own initial model state (no chain's start value reaches another chain's kernel state)",
                       [enc], goal, signature="init-independence")]


# ------------------------------------------------------------------ B: initial values, jitter, seeds through the real builder
class RecEngine:
    last = None

    def __init__(self, **kw):
        RecEngine.last = kw


def builder_scenario(chk, multi, fn_order=("b", "a"), rebuild=False, tagx="", extra=False):
    """EngineBuilder(seed).set_initial_values(..., multiple_chains=multi) with jitter functions, build() with Engine re-bound to a recorder"""
    import liesel.goose as gs
    import liesel.goose.builder as bld
    C = 2

    def f(seed_key, sa, sb):
        real_engine = bld.Engine
        bld.Engine = RecEngine
        try:
            b = gs.EngineBuilder(seed_key, C)
            b.set_model(gs.DictInterface(lambda s: -0.5 * jnp.sum(s["a"] ** 2) - 0.5 * s["b"] ** 2))
            st = {"a": sa, "b": sb}
            if extra:       # a state entry no kernel samples, tracked through positions_included, with a jitter function of its own
                st["c"] = sb * 3.0
                b.positions_included = ["c"]
            b.set_initial_values(st, multiple_chains=multi)
            b.add_kernel(gs.RWKernel(["a"]))
            b.add_kernel(gs.RWKernel(["b"]))
            b.set_epochs([gs.EpochConfig(gs.EpochType.INITIAL_VALUES, 1, 1, None), gs.EpochConfig(gs.EpochType.POSTERIOR, 2, 1, None)])
            # "a": ONE scalar draw per call, added to every component (a jitter function sees one chain's value and one key);
            # "b": element-wise
            fns = {"c": lambda key, v: v + 0.25 * jax.random.uniform(key, v.shape), "b": lambda key, v: v + 0.5 * jax.random.uniform(key, v.shape), "a": lambda key, v: v + 2.0 * jax.random.uniform(key, ()) * jnp.ones_like(v)}
            b.set_jitter_fns({k: fns[k] for k in fn_order})
            b.build()
            kw = kw2 = RecEngine.last
            if rebuild:
                b.build()                       # a second engine from the same, unchanged builder
                kw2 = RecEngine.last
        finally:
            bld.Engine = real_engine
        return dict(states=kw["model_states"], seeds=kw["seeds"], **(dict(states2=kw2["model_states"], seeds2=kw2["seeds"]) if rebuild else {}))
    key = jax.random.PRNGKey(3)
    if multi:
        ex = (key, jnp.array([[0.1, 0.2], [0.3, 0.4]]), jnp.array([0.5, 0.6]))
    else:
        ex = (key, jnp.array([0.1, 0.2]), jnp.array(0.5))
    tag = ("multi" if multi else "single") + ("2" if rebuild else "") + tagx
    sa, sb = symlike(ex[1], f"iv{tag}_a"), symlike(ex[2], f"iv{tag}_b")
    enc = chk.note_enc(Enc(f"EngineBuilder.build with jitter ({'per-chain states' if multi else 'one state replicated'}{', built twice' if rebuild else ''}{', jitter for ' + ','.join(fn_order) if tagx else ''})", f, ex, (root_key("seed"), sa, sb), key_roots={"seed": key},
                           **(dict(memo={}) if rebuild else {})))      # built twice: the same sampler with the same key term is the same draw (deterministic PRNG)
    return enc, sa, sb, C


def engine_seed_check(chk):
    """EngineBuilder.set_engine_seed: a single key is split into one seed per chain; per-chain keys are used as given"""
    import liesel.goose as gs
    import liesel.goose.builder as bld

    def f(seed_key, ekey, per_chain):
        real_engine = bld.Engine
        bld.Engine = RecEngine
        try:
            b = gs.EngineBuilder(seed_key, 2)
            b.set_model(gs.DictInterface(lambda s: -0.5 * s["b"] ** 2))
            b.set_initial_values({"b": jnp.array(0.5)})
            b.add_kernel(gs.RWKernel(["b"]))
            b.set_epochs([gs.EpochConfig(gs.EpochType.INITIAL_VALUES, 1, 1, None), gs.EpochConfig(gs.EpochType.POSTERIOR, 2, 1, None)])
            b.set_engine_seed(ekey)
            b.build()
            one = RecEngine.last["seeds"]
            b.set_engine_seed(per_chain)
            b.build()
            two = RecEngine.last["seeds"]
        finally:
            bld.Engine = real_engine
        return dict(one=one, two=two)
    # integer engine seeds (Python int, numpy integer scalar) = the corresponding PRNG key (concrete observation, bit for bit)
    for n in (0, 7, np.int32(11), 2 ** 31 - 1):
        def int_seed(n=n):
            real_engine = bld.Engine
            bld.Engine = RecEngine
            try:
                out = []
                for sd in (n, jax.random.PRNGKey(int(n))):
                    b = gs.EngineBuilder(1, 2)
                    b.set_model(gs.DictInterface(lambda s: -0.5 * s["b"] ** 2))
                    b.set_initial_values({"b": jnp.array(0.5)})
                    b.add_kernel(gs.RWKernel(["b"]))
                    b.set_epochs([gs.EpochConfig(gs.EpochType.INITIAL_VALUES, 1, 1, None), gs.EpochConfig(gs.EpochType.POSTERIOR, 2, 1, None)])
                    b.set_engine_seed(sd)
                    b.build()
                    out.append((np.asarray(b.engine_seed).tolist(), np.asarray(RecEngine.last["seeds"]).tolist()))
            finally:
                bld.Engine = real_engine
            want = np.asarray(jax.random.split(jax.random.PRNGKey(int(n)), 2)).tolist()
            return out, want
        r = chk.guarded(f"engine-seed-int:{int(n)}", f"set_engine_seed({n!r})", int_seed)
        if r is not None:
            (a, b_), want = r
            if a != b_ or a[1] != want:
                chk.violation("engine-seed-int", f"set_engine_seed({n!r}) is not equivalent to set_engine_seed(PRNGKey({int(n)}))",
                              dict(reproduced=True, inputs=dict(seed=int(n), type=type(n).__name__), observed=dict(int_seed=a, key_seed=b_, split_of_key=want), note="concrete observation on the real builder"))
    k0, k1 = jax.random.PRNGKey(3), jax.random.PRNGKey(4)
    pc = jax.random.split(jax.random.PRNGKey(5), 2)
    pcs = np.stack([root_key("c0"), root_key("c1")])
    enc = chk.note_enc(Enc("EngineBuilder.set_engine_seed + build", f, (k0, k1, pc), (root_key("seed"), root_key("e"), pcs), key_roots={"seed": k0, "e": k1, "c0": pc[0], "c1": pc[1]}))

    class _Ob:
        name = "set_engine_seed(key): the engine gets split(key, num_chains), independent of the builder seed; set_engine_seed(per-chain keys): the engine gets exactly those keys"
        signature = "engine-seed"
    one, two = enc.out["one"], enc.out["two"]
    got1 = [repr(getattr(one[c, 0], "key", one[c, 0])) for c in range(2)]
    got2 = [repr(getattr(two[c, 0], "key", two[c, 0])) for c in range(2)]
    want1 = [f"Key('split', ('root', 'e'), (2,), ({c},))" for c in range(2)]
    want2 = [f"Key('root', 'c{c}')" for c in range(2)]
    if got1 == want1 and got2 == want2:
        chk.results.append(Result(_Ob, "unsat", 0.0, {"tactic": "term equality"}))
    else:
        chk.violation(_Ob.signature, _Ob.name, dict(reproduced=True, observed=dict(single_key=got1, per_chain_keys=got2, expected_single=want1, expected_per_chain=want2),
                                                    note="key terms read off the traced set_engine_seed()/build()"))


def builder_obligations(chk, multi):
    enc, sa, sb, C = builder_scenario(chk, multi)
    tag = "per-chain initial states" if multi else "one initial state replicated"
    obs = []
    scale = {"a": 2.0, "b": 0.5}

    def g(V):
        st = V.out["states"]
        uni = [d for d in V.I.draws if d["kind"] == "uniform"]
        goals = []
        used = []
        for c in range(C):
            for kname, sym in (("a", sa), ("b", sb)):
                init = (sym[c] if multi else sym)
                got = st[kname][c]
                n = int(np.prod(np.shape(got), dtype=int)) if np.shape(got) else 1
                alts = []
                for d in uni:
                    # batched draw: leading dim = chain (one key per chain)
                    o = d["out"]
                    if o.ndim < 1 or o.shape[0] != C or len(d["keys"]) != C:
                        continue
                    m_ = int(np.prod(o.shape[1:], dtype=int)) if o.ndim > 1 else 1
                    if m_ == n:
                        alts.append(z3.And(*[gc == ic + scale[kname] * uc for gc, ic, uc in zip(cells(got), cells(init), cells(o[c]))]))
                    elif m_ == 1:       # one scalar draw per chain, broadcast over the components
                        uc = cells(o[c])[0]
                        alts.append(z3.And(*[gc == ic + scale[kname] * uc for gc, ic in zip(cells(got), cells(init))]))
                goals.append(z3.Or(*alts) if alts else z3.BoolVal(False))
        return [], z3.And(*goals)
    obs.append(Obligation(f"[{tag}] the state handed to the engine (= first recorded sample) of every chain is its supplied initial value after the configured jitter function of that key, drawn with a key of its own",
                          [enc], g, signature=f"jitter:{'multi' if multi else 'single'}"))

    def g2(V):
        o = V.out
        same_seeds = all(repr(a) == repr(b) for a, b in zip(np.asarray(o["seeds"], dtype=object).reshape(-1), np.asarray(o["seeds2"], dtype=object).reshape(-1)))
        return [], z3.And(z3.BoolVal(bool(same_seeds)), *[all_eq(o["states"][k], o["states2"][k]) for k in ("a", "b")])
    # jitter functions for only some of the position keys: the others start exactly at the supplied values
    enc3, sa3, sb3, _ = builder_scenario(chk, multi, fn_order=("b",), tagx="partial")

    def g3(V):
        st = V.out["states"]
        return [], z3.And(*[all_eq(st["a"][c], (sa3[c] if multi else sa3)) for c in range(C)])
    obs.append(Obligation(f"[{tag}] a position key without a jitter function starts at its supplied initial value in every chain", [enc3], g3, signature=f"jitter-partial:{'multi' if multi else 'single'}"))
    # a jitter function for a key that no kernel samples (tracked through positions_included) is applied as well
    enc4, sa4, sb4, _ = builder_scenario(chk, multi, fn_order=("c", "b"), tagx="extra", extra=True)

    def g4(V):
        st = V.out["states"]
        if "c" not in st:
            return [], z3.BoolVal(False)
        uni = [d for d in V.I.draws if d["kind"] == "uniform" and d["out"].ndim >= 1 and d["out"].shape[0] == C and len(d["keys"]) == C]
        goals = []
        for c in range(C):
            init = 3 * (sb4[c] if multi else sb4)
            goals.append(z3.Or(*[cells(st["c"][c])[0] == cells(init)[0] + z3.RealVal("1/4") * cells(d["out"][c])[0] for d in uni]) if uni else z3.BoolVal(False))
        return [], z3.And(*goals)
    obs.append(Obligation(f"[{tag}] a jitter function configured for a state entry that no kernel samples is applied too (every chain starts at jitter(initial value) for every key with a jitter function)",
                          [enc4], g4, signature=f"jitter-extra:{'multi' if multi else 'single'}"))
    enc2 = builder_scenario(chk, multi, rebuild=True)[0]
    obs.append(Obligation(f"[{tag}] a second build() of the same builder hands its engine the same seeds and the same (once-jittered) initial states: identical configuration => identical run",
                          [enc2], g2, signature=f"rebuild:{'multi' if multi else 'single'}"))
    # key terms: all jitter draws and all engine seeds pairwise distinct, all derived from the seed
    bad, n = colliding_draw_keys(enc.I, kinds=("uniform",))
    seeds = enc.out["seeds"]
    seed_terms = []
    for c in range(seeds.shape[0]):
        w = seeds[c, 0]
        seed_terms.append(w.key if isinstance(w, KeyWord) else None)

    class _Ob:
        name = f"[{tag}] jitter keys ({n} sampler calls) and the {len(seed_terms)} per-chain engine seeds are pairwise distinct key terms derived from the seed"
        signature = f"jitter-keys:{'multi' if multi else 'single'}"
    ok = not bad and all(t is not None for t in seed_terms)
    if ok:
        allk = [k for d in enc.I.draws if d["kind"] == "uniform" for k in d["keys"]] + seed_terms
        for i in range(len(allk)):
            for j in range(i):
                s = z3.Solver()
                s.add(key_z3(allk[i].term) == key_z3(allk[j].term))
                if str(s.check()) != "unsat":
                    ok = False
        for t in allk:
            r_ = t.term
            while r_[0] in ("split", "fold_in"):
                r_ = r_[1]
            if r_ != ("root", "seed"):
                ok = False
    if ok:
        chk.results.append(Result(_Ob, "unsat", 0.0, {"tactic": "z3 datatype"}))
    else:
        chk.violation(_Ob.signature, _Ob.name, dict(reproduced=True, note="key terms read off the traced build(): " + str([repr(k) for d in enc.I.draws for k in d["keys"]])[:400]))
    return obs, enc


def hashseed_reproducibility(chk):
    """the assignment of jitter keys to position keys must not depend on the interpreter's string hash seed"""
    code = ("import warnings, logging; warnings.filterwarnings('ignore'); logging.disable(logging.WARNING)\n"
            "import json, sys\nsys.argv=['x']\nfrom vf.props import c10\nfrom vf.harness import Check\nchk=Check('C10')\n"
            "enc, sa, sb, C = c10.builder_scenario(chk, False, fn_order=('b','a','c')[:2])\n"
            "m = {}\n"
            "import z3\n"
            "for d in enc.I.draws:\n"
            "    if d['kind']=='uniform': m[str(tuple(d['shape']))] = repr(d['keys'][0])\n"
            "print('MAP', json.dumps(m, sort_keys=True))\n")
    maps = {}
    for hs in ("0", "1", "2", "3"):
        e = dict(os.environ)
        e["PYTHONHASHSEED"] = hs
        p = subprocess.run([sys.executable, "-c", code], capture_output=True, text=True, env=e, cwd=os.path.dirname(os.path.dirname(os.path.dirname(os.path.abspath(__file__)))), timeout=600)
        line = [l for l in p.stdout.splitlines() if l.startswith("MAP ")]
        if not line:
            chk.harness_error("hashseed", "sub-process failed: " + (p.stderr or p.stdout)[-300:])
            return
        maps[hs] = line[0][4:]

    class _Ob:
        name = "the key term that jitters each position key is the same under PYTHONHASHSEED = 0, 1, 2, 3 (identical seed => identical run across interpreter processes)"
        signature = "reproducible-across-hashseeds"
    chk.extra["hashseed_maps"] = maps
    if len(set(maps.values())) == 1:
        chk.results.append(Result(_Ob, "unsat", 0.0, {"tactic": "term equality"}))
    else:
        chk.violation(_Ob.signature, _Ob.name, dict(reproduced=True, observed=maps, note="traced EngineBuilder.build in four interpreter processes: jitter key assignment differs"))


def main():
    chk = Check("C10")
    # A: keys in the engine
    conds = []
    pl = plan(chk.tier)
    if chk.tier == "quick":
        pl = pl[:5]
    for qi, (s, nh, store, up) in enumerate(pl):
        qg = qi % 3
        ts = ",".join(map(str, s))
        conds.append(Cond("vf.ch.h_engine", "check_keys_q" if chk.tier == "quick" else "check_keys",
                          f"every kernel call (init, start, transition, end, tune, end_warmup) for epoch types INITIAL,{ts} receives a distinct key term derived from the seed only",
                          timeout_s=600 if chk.tier == "quick" else 1200, env={"TYPES": ts, "NK": "2", "NH": nh, "STORE": str(store), "UPFRONT": str(up), "QG": str(qg)}, signature=f"keys:{ts}"))
    s, nh, store, up = pl[1]
    conds.append(Cond("vf.ch.h_engine", "check_keys_chunks", f"distinct key terms when epochs are sampled in several JIT chunks of 2 or 3 iterations (durations chunk*q, q <= 2; epoch types INITIAL,{','.join(map(str, s))})",
                      timeout_s=900, env={"TYPES": ",".join(map(str, s)), "NK": "2", "NH": nh, "STORE": str(store), "UPFRONT": str(up), "QG": "0"}, signature="keys:multi-chunk"))
    conds.append(Cond("vf.ch.h_builder", "check_seed_int_equals_key", "EngineBuilder(seed=n) and EngineBuilder(seed=PRNGKey(n)) derive the same, pairwise distinct engine / jitter / builder keys", 200, signature="seed-int-key"))
    run_conditions(chk, conds)
    # B
    chk.guarded("non-interference", "tracing the jitted two-chain chunk", noninterference, chk)
    chk.guarded("non-interference-iwls", "tracing the jitted two-chain IWLS chunk", noninterference, chk, 2, 2, "iwls")
    if chk.tier == "thorough":
        chk.guarded("non-interference-3x3", "tracing the jitted three-chain chunk", noninterference, chk, 3, 3, "rw")
    obs = []
    res = chk.guarded("init-independence", "tracing Engine.__init__ with a start-value dependent kernel", init_independence, chk)
    if res:
        obs += res
    for multi in (False, True):
        res = chk.guarded(f"builder:{multi}", f"EngineBuilder.set_initial_values(multiple_chains={multi}) / build()", builder_obligations, chk, multi)
        if res:
            obs += res[0]
            chk.validate(res[1])
    chk.run(obs)
    from .c04 import sequence_keys
    sequence_keys(chk, ["liesel:Gibbs+RW+RW(ids not sorted)"])          # three kernels in one sequence: every kernel call gets its own key
    chk.guarded("engine-seed", "EngineBuilder.set_engine_seed / build()", engine_seed_check, chk)
    chk.guarded("hashseed", "tracing build() under several hash seeds", hashseed_reproducibility, chk)
    chk.functions += ["liesel.goose.engine.Engine (key handling: _split_prng_key, _kernel_start_epoch, _sample_for_duration, _end_epoch, _tune_kernels, _end_warmup)", "liesel.goose.kernel_sequence.KernelSequence (key splitting)",
                      "liesel.goose.builder.EngineBuilder.__init__/set_initial_values/set_jitter_fns/build", "liesel.goose.pytree.stack_leaves"]
    chk.bounds += ["engine schedules as in C07 (3 epochs, symbolic durations/thinning/chunk)", "2 chains, chunk of 2 transitions for non-interference; 2 chains, two position keys (vector and scalar) for the builder"]
    chk.enumerated += [f"epoch types INITIAL,{','.join(map(str, s))}" for s, *_ in pl] + ["single state replicated", "per-chain states", "explicit engine seed (single key / per-chain keys)"]
    chk.assume("ideal PRNG: keys are terms of a free algebra (threefry collision-free); a draw is a function of its key term", "bit-identical reruns beyond key derivation (XLA determinism) are outside the claim",
               "quantity generators (0-2 recording generators, varied over the configurations) are part of the runs: their keys, call counts and stored outputs are checked", "fake environment contracts as in C07")
    return chk.finish(technique=TECH)
