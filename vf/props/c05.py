"""C05 Metropolis-Hastings acceptance rule is exact (Engine B, fp32 mode).

mh_step is traced from /repo and interpreted over z3 Float32 terms: current / proposed
log-density, correction and the carried state are arbitrary float32 values (+-inf, NaN,
-0 included), the 32 random bits behind jax.random.uniform are an arbitrary bit-vector and
the uniform's own bit manipulation is interpreted bit-precisely.  `exp` is an
uninterpreted function constrained by sign / monotonicity / special-value axioms.
"""
import json

import jax
import jax.numpy as jnp
import numpy as np
import z3

from ..harness import Check, Enc, Obligation, cells
from ..jx2smt import root_key, sym_array

# the statement's quantity is (log-density difference) + log-correction.  Other associations are different float32 functions: (p+k)-c and
# p-(c-k) absorb the correction into a large log-density before the cancellation (error up to ulp(|p|), unbounded relative to the result),
# so they are not accepted as "the rule" (round-4 seed C05-E: wrong accept decisions for |log p| >= 1e5 with a non-zero correction)
ORDERS = ("(p-c)+k",)


def traced(key, cur, prop, corr, x, xp):
    from liesel.goose.interface import DictInterface
    from liesel.goose.mh import mh_step

    info, st = mh_step(key, DictInterface(lambda s: s["lp"]), {"lp": prop, "x": xp}, {"lp": cur, "x": x}, corr)
    return dict(code=info.error_code, acc=info.acceptance_prob, moved=info.position_moved, lp=st["lp"], x=st["x"],
                u=jax.random.uniform(key))


def exp_axioms(I):
    F = I.F
    ax = []
    z, one = z3.FPVal(0, F), z3.FPVal(1, F)
    for x, t in I.exp_terms:
        ax.append(z3.fpIsNaN(x) == z3.fpIsNaN(t))
        ax.append(z3.Implies(z3.Not(z3.fpIsNaN(x)), z3.And(z3.fpGEQ(t, z), z3.Not(z3.fpIsNegative(t)))))
        ax.append(z3.Implies(z3.fpEQ(x, z3.fpMinusInfinity(F)), z3.fpIsZero(t)))
        ax.append(z3.Implies(z3.fpEQ(x, z3.fpPlusInfinity(F)), z3.fpIsInf(t)))
        ax.append(z3.Implies(z3.fpIsZero(x), t == one))
        ax.append(z3.Implies(z3.fpGEQ(x, z), z3.fpGEQ(t, one)))
        ax.append(z3.Implies(z3.fpLT(x, z), z3.fpLEQ(t, one)))
    for (x1, t1) in I.exp_terms:
        for (x2, t2) in I.exp_terms:
            if x1 is not x2:
                ax.append(z3.Implies(z3.fpLEQ(x1, x2), z3.fpLEQ(t1, t2)))
                ax.append(z3.Implies(x1 == x2, t1 == t2))
    return ax


def delta(order, p, c, k):
    R = z3.RNE()
    if order == "(p-c)+k":
        return z3.fpAdd(R, z3.fpSub(R, p, c), k)
    if order == "(p+k)-c":
        return z3.fpSub(R, z3.fpAdd(R, p, k), c)
    return z3.fpSub(R, p, z3.fpSub(R, c, k))


def np_delta(order, p, c, k):
    f = np.float32
    with np.errstate(all="ignore"):
        if order == "(p-c)+k":
            return f(f(p - c) + k)
        if order == "(p+k)-c":
            return f(f(p + k) - c)
        return f(p - f(c - k))


def find_key(target_bits, seed=0, batches=24, n=1 << 22):
    """a real PRNG key whose uniform draw has the mantissa bits of the solver's model"""
    want = np.uint32(target_bits) >> np.uint32(9)
    f = jax.jit(jax.vmap(lambda k: jax.random.bits(k, (), jnp.uint32)))
    for b in range(batches):
        keys = jax.random.split(jax.random.PRNGKey(seed + 7919 * b), n)
        bits = np.asarray(f(keys))
        hit = np.nonzero((bits >> np.uint32(9)) == want)[0]
        if len(hit):
            return np.asarray(keys[int(hit[0])])
    return None


def real_check(key, cur, prop, corr, x, xp):
    """run the real mh_step and compare with the property; returns (ok, what, observed)"""
    f32 = np.float32
    out = traced(jnp.asarray(key, dtype=jnp.uint32), *[jnp.float32(v) for v in (cur, prop, corr, x, xp)])
    code, acc, moved = int(out["code"]), f32(out["acc"]), bool(out["moved"])
    lp, xs, u = f32(out["lp"]), f32(out["x"]), f32(out["u"])
    obs = dict(code=code, acc=float(acc), moved=moved, lp=float(lp), x=float(xs), u=float(u))
    same = lambda a, b: (np.isnan(a) and np.isnan(b)) or (a == b and np.signbit(a) == np.signbit(b))
    problems = []
    if np.isnan(acc) or acc < 0 or acc > 1:
        problems.append("acceptance probability outside [0,1]")
    if acc == 0 and moved:
        problems.append("proposal with acceptance probability 0 was accepted")
    if acc >= 1 and not moved:
        problems.append("proposal with acceptance probability 1 was rejected")
    if moved and not (u <= acc):
        problems.append("accepted although the uniform draw is above the acceptance probability")
    if (u < acc) and not moved:
        problems.append("rejected although the uniform draw is below the acceptance probability")
    rule_ok = False
    with np.errstate(all="ignore"):
        for o in ORDERS:
            d = np_delta(o, f32(prop), f32(cur), f32(corr))
            nan = bool(np.isnan(d))
            want_acc = f32(min(f32(1), f32(jnp.exp(jnp.float32(-np.inf if nan else d)))))
            want_code = 90 if nan else 0
            acc_close = abs(float(acc) - float(want_acc)) <= 4e-7 * max(1e-30, abs(float(want_acc))) + 1e-45
            if acc_close and code == want_code and not (nan and moved):
                rule_ok = True
    if not rule_ok:
        problems.append("acceptance probability / error code differ from min(1, exp(log ratio)) / 90-for-NaN")
    if moved and not (same(lp, f32(prop)) and same(xs, f32(xp))):
        problems.append("accepted but the returned state is not the proposed state")
    if not moved and not (same(lp, f32(cur)) and same(xs, f32(x))):
        problems.append("rejected but the returned state differs from the input state")
    return (not problems), problems, obs


def traced_int(key, cur, prop, corr, x, xp, n):
    """as `traced`, with an integer entry in the model state that the proposal does not touch"""
    from liesel.goose.interface import DictInterface
    from liesel.goose.mh import mh_step

    info, st = mh_step(key, DictInterface(lambda s: s["lp"]), {"lp": prop, "x": xp}, {"lp": cur, "x": x, "n": n}, corr)
    return dict(moved=info.position_moved, lp=st["lp"], x=st["x"], n=st["n"])


def int_state_obligation(chk):
    F = z3.Float32()
    sc = lambda n: np.array(z3.FP(n + "_i", F), dtype=object).reshape(())
    nvar = z3.BitVec("n_i", 32)
    sym = (root_key("k"), sc("cur"), sc("prop"), sc("corr"), sc("x"), sc("xp"), np.array(nvar, dtype=object).reshape(()))
    ex = (jax.random.PRNGKey(0), 1.0, 2.0, 0.5, 0.1, 0.2, jnp.int32(16777217))
    enc = chk.note_enc(Enc("mh_step (state with an int32 entry)", traced_int, ex, sym, mode="fp32"))
    o = {k: cells(v)[0] for k, v in enc.out.items()}
    cur, prop, corr, x, xp = [cells(a)[0] for a in sym[1:6]]

    def goal(V):
        n_out = o["n"]
        same_n = (n_out == nvar) if z3.is_bv(n_out) else z3.BoolVal(False)
        return [], z3.And(same_n, z3.Implies(z3.Not(o["moved"]), z3.And(o["lp"] == cur, o["x"] == x)), z3.Implies(o["moved"], z3.And(o["lp"] == prop, o["x"] == xp)))

    def replay(ob, model, rng):
        from ..zeval import model_value
        vals = [model_value(model, v, np.float32(0)) for v in (cur, prop, corr, x, xp)]
        nv = model.eval(nvar, model_completion=True).as_signed_long()
        for n_ in (nv, 16777217, -33554431, 2147483647):
            for s in range(3):
                out = traced_int(jax.random.PRNGKey(s), *[jnp.float32(v) for v in vals], jnp.int32(n_))
                if int(out["n"]) != int(np.int32(n_)):
                    return dict(reproduced=True, inputs=dict(key=[0, s], cur=float(vals[0]), prop=float(vals[1]), corr=float(vals[2]), n=int(n_)), observed=dict(n_returned=int(out["n"]), moved=bool(out["moved"])),
                                note="an integer entry of the model state that the proposal does not touch comes back changed")
        return dict(reproduced=False, note="integer entry returned unchanged at the solver's point and at 3 large values")
    return [Obligation("accepted or rejected, an int32 entry of the model state outside the proposal is returned bit for bit (and the float entries are the proposed / the input ones)", [enc],
                       goal, timeout_s=300, replay=replay, signature="mh_step:int-entry")]


class CountingInterface:
    """a model interface whose update_state is NOT idempotent (it counts its calls in the state): 'returns the input state on rejection'
    cannot be faked by re-applying the current position"""

    def extract_position(self, keys, ms):
        return {k: ms[k] for k in keys}

    def update_state(self, pos, ms):
        return ms | pos | {"n_updates": ms["n_updates"] + 1.0}

    def log_prob(self, ms):
        return ms["lp"]


def abstract_interface_obligation(chk):
    """mh_step against an ARBITRARY update_state (a verif_stub): on rejection the returned state is the input state itself, on acceptance it is
    exactly what update_state(proposal, input) returned -- whatever that function does"""
    from .. import stubs
    from liesel.goose.mh import mh_step
    real_iface = CountingInterface()

    class AbsIface(CountingInterface):
        def update_state(self, pos, ms):
            return stubs.stub("update_state", (pos, ms), ms, real=lambda p_, m_: real_iface.update_state(p_, m_))

    def f(key, cur, prop, x, xp, n0):
        info, st = mh_step(key, AbsIface(), {"lp": prop, "x": xp}, {"lp": cur, "x": x, "n_updates": n0}, 0.0)
        return dict(moved=info.position_moved, lp=st["lp"], x=st["x"], n=st["n_updates"])
    names = ("cur", "prop", "x", "xp", "n0")
    R = {n: z3.Real("abs_" + n) for n in names}
    sc = lambda v: np.array(v, dtype=object).reshape(())
    key = jax.random.PRNGKey(2)
    enc = chk.note_enc(Enc("mh_step with an abstract update_state", f, (key, 1.0, 2.0, 0.1, 0.2, 41.0), (root_key("k"),) + tuple(sc(R[n]) for n in names), key_roots={"k": key}))

    def goal(V):
        if V.ncalls("update_state") != 1:
            return [], z3.BoolVal(False)
        a_, o_ = V.call("update_state")
        new = [cells(t)[0] for t in o_]            # leaves of the stub's output state in tree order: lp, n_updates, x
        mv = cells(V.out["moved"])[0]
        out = dict(lp=cells(V.out["lp"])[0], n=cells(V.out["n"])[0], x=cells(V.out["x"])[0])
        return [], z3.And(z3.Implies(z3.Not(mv), z3.And(out["lp"] == R["cur"], out["x"] == R["x"], out["n"] == R["n0"])),
                          z3.Implies(mv, z3.And(out["lp"] == new[0], out["n"] == new[1], out["x"] == new[2])))

    def replay(ob, model, rng):
        import jax.numpy as jnp_
        st = {"lp": jnp_.float32(-1.0), "x": jnp_.float32(0.1), "n_updates": jnp_.float32(41.0)}
        info, out = mh_step(jax.random.PRNGKey(0), real_iface, {"lp": jnp_.float32(-jnp_.inf), "x": jnp_.float32(0.2)}, st, 0.0)      # probability zero: rejected
        same = float(out["n_updates"]) == 41.0 and float(out["lp"]) == -1.0 and float(out["x"]) == float(np.float32(0.1))
        return dict(reproduced=not same, inputs=dict(current=dict(lp=-1.0, x=0.1, n_updates=41.0), proposal=dict(lp="-inf", x=0.2)),
                    observed=dict(moved=bool(info.position_moved), returned={k: float(v) for k, v in out.items()}),
                    note="a rejected step returns a state that is not the input state (update_state was applied again)" if not same else "rejected step returns the input state")
    return [Obligation("for an arbitrary (non-idempotent) update_state: a rejected step returns the input state itself, an accepted step exactly the state update_state(proposal, input) returned",
                       [enc], goal, signature="mh_step:abstract-update", replay=replay, timeout_s=120)]


_SCALE = [1.0]


def second_use_obligation(chk):
    """the same interface object used for two steps while something its log-density reads from OUTSIDE the state is replaced in between (same
    shapes): every step must use the log-density as it is when the step is taken (no result of an earlier trace may be reused)"""
    from liesel.goose.interface import DictInterface
    from liesel.goose.mh import mh_step

    def f(key, cur, prop):
        iface = DictInterface(lambda s_: s_["lp"] * _SCALE[0])
        _SCALE[0] = 1.0
        i1, _ = mh_step(key, iface, {"lp": prop}, {"lp": cur})
        _SCALE[0] = 3.0
        i2, _ = mh_step(jax.random.fold_in(key, 1), iface, {"lp": prop}, {"lp": cur})
        _SCALE[0] = 1.0
        return dict(a1=i1.acceptance_prob, a2=i2.acceptance_prob)
    cur, prop = z3.Real("su_cur"), z3.Real("su_prop")
    sc = lambda v: np.array(v, dtype=object).reshape(())
    key = jax.random.PRNGKey(4)
    enc = chk.note_enc(Enc("mh_step twice with one interface object", f, (key, 1.0, 0.5), (root_key("k"), sc(cur), sc(prop)), key_roots={"k": key}))

    def goal(V):
        e1, e3 = V.exp(prop - cur), V.exp(3 * prop - 3 * cur)
        return [], z3.And(cells(V.out["a1"])[0] == z3.If(e1 <= 1, e1, 1), cells(V.out["a2"])[0] == z3.If(e3 <= 1, e3, 1))

    def replay(ob, model, rng):
        out = f(jax.random.PRNGKey(0), jnp.float32(1.0), jnp.float32(0.5))
        want = float(min(1.0, np.exp(3 * (0.5 - 1.0))))
        got = float(out["a2"])
        return dict(reproduced=abs(got - want) > 1e-4, inputs=dict(current_lp=1.0, proposed_lp=0.5, scale_first_step=1.0, scale_second_step=3.0),
                    observed=dict(acceptance_prob_second_step=got, expected=want), note="the second step still uses the log-density of the first" if abs(got - want) > 1e-4 else "second step uses the current log-density")
    return [Obligation("two steps with the same interface object: the second step's acceptance probability uses the log-density as it is at that step (scaled by 3), not a trace cached from the first", [enc], goal,
                       signature="mh_step:second-use", replay=replay, timeout_s=120)]


def main():
    chk = Check("C05")
    F = z3.Float32()
    sc = lambda n: np.array(z3.FP(n, F), dtype=object).reshape(())
    sym = (root_key("k"), sc("cur"), sc("prop"), sc("corr"), sc("x"), sc("xp"))
    ex = (jax.random.PRNGKey(0), 1.0, 2.0, 0.5, 0.1, 0.2)
    enc = chk.note_enc(Enc("mh_step", traced, ex, sym, mode="fp32"))
    chk.functions += ["liesel.goose.mh.mh_step", "liesel.goose.interface.DictInterface.update_state/log_prob",
                      "jax.random.uniform (bit manipulation interpreted; random_bits stubbed)"]
    I = enc.I
    o = {k: cells(v)[0] for k, v in enc.out.items()}
    cur, prop, corr, x, xp = [cells(a)[0] for a in sym[1:]]
    bits = [d for d in I.draws if d["kind"] == "bits"]
    if len({repr(c) for d in bits for c in cells(d["out"])}) != 1:
        chk.harness_error("encoding", "expected exactly one random word behind the uniform draw")
        return chk.finish(technique=TECH)
    bitvar = cells(bits[0]["out"])[0]
    acc, moved, code, u = o["acc"], o["moved"], o["code"], o["u"]
    zero, one = z3.FPVal(0, F), z3.FPVal(1, F)
    ninf = z3.fpMinusInfinity(F)

    def rule(order, with_code):
        d = delta(order, prop, cur, corr)
        nan = z3.fpIsNaN(d)
        e = I.exp(z3.If(nan, ninf, d))
        want = z3.If(z3.fpLEQ(e, one), e, one)
        parts = [acc == want]
        if with_code:
            parts += [code == z3.If(nan, 90, 0), z3.Implies(nan, z3.Not(moved))]
        return z3.And(*parts)

    goals = {
        "acceptance probability in [0,1] and not NaN": z3.And(z3.Not(z3.fpIsNaN(acc)), z3.fpGEQ(acc, zero), z3.fpLEQ(acc, one)),
        "probability zero is never accepted": z3.Implies(z3.fpIsZero(acc), z3.Not(moved)),
        "probability one is always accepted": z3.Implies(z3.fpGEQ(acc, one), moved),
        "accepted only if u <= acceptance probability": z3.Implies(moved, z3.fpLEQ(u, acc)),
        "u < acceptance probability implies accepted": z3.Implies(z3.fpLT(u, acc), moved),
        "acceptance probability = min(1, exp(log ratio))": z3.Or(*[rule(od, False) for od in ORDERS]),
        "NaN ratio <=> error code 90 (else 0) and rejected": z3.Or(*[rule(od, True) for od in ORDERS]),
        "rejected => returned state is the input state": z3.Implies(z3.Not(moved), z3.And(o["lp"] == cur, o["x"] == x)),
        "accepted => returned state is the proposed state": z3.Implies(moved, z3.And(o["lp"] == prop, o["x"] == xp)),
        "uniform draw lies in [0,1)": z3.And(z3.fpGEQ(u, zero), z3.fpLT(u, one)),
    }
    # the oracle's exp applications must exist before the axioms are instantiated
    built = {n: g for n, g in goals.items()}
    ax = exp_axioms(I)

    def replay(ob, model, rng):
        from ..zeval import model_value
        vals = [model_value(model, v, np.float32(0)) for v in (cur, prop, corr, x, xp)]
        b = model_value(model, bitvar, 0)
        tried = []
        key = find_key(b, seed=chk.seed)
        cands = ([key] if key is not None else []) + [np.asarray(jax.random.PRNGKey(s)) for s in range(3)]
        for kk in cands:
            ok, problems, obs = real_check(kk, *vals)
            tried.append(dict(key=[int(t) for t in kk], ok=ok))
            if not ok:
                return dict(reproduced=True, inputs=dict(key=[int(t) for t in kk], cur=float(vals[0]), prop=float(vals[1]), corr=float(vals[2]),
                                                         x=float(vals[3]), xp=float(vals[4])), observed=obs, note="; ".join(problems))
        # the solver's point did not reproduce (e.g. a model that leans on an impossible value of the uninterpreted exp): confirmation
        # sweep over the special values of the three float inputs around the model, with an ordinary key and a key whose draw is exactly 0.0
        f32 = np.float32
        zero_key = find_key(0, seed=chk.seed) if b != 0 or key is None else key
        keys = [kk for kk in (zero_key, np.asarray(jax.random.PRNGKey(1))) if kk is not None]
        specials = [f32(np.nan), f32(np.inf), f32(-np.inf), f32(0.0), f32(1.0), f32(-1.0)]
        for c_ in [vals[0]] + specials:
            for p_ in [vals[1]] + specials:
                for k_ in [vals[2]] + specials:
                    for kk in keys:
                        ok, problems, obs = real_check(kk, c_, p_, k_, vals[3], vals[4])
                        if not ok:
                            return dict(reproduced=True, inputs=dict(key=[int(t) for t in kk], cur=float(c_), prop=float(p_), corr=float(k_), x=float(vals[3]), xp=float(vals[4])),
                                        observed=obs, note="; ".join(problems) + " (found in the special-value neighbourhood of the solver's model)")
        return dict(reproduced=False, note=f"real mh_step satisfies the property at the model's inputs (bits={b}) and at 343 special-value combinations around it; tried {tried}")

    obs_ = [Obligation(n, [enc], (lambda g: (lambda V: (ax, g)))(g), timeout_s=300, replay=replay, signature="mh_step:" + n) for n, g in built.items()]
    # translator validation on concrete points (real code vs encoding, bit exact except exp)
    pts = 0
    for s in range(4):
        rng = np.random.default_rng(chk.seed + s)
        v = [np.float32(t) for t in rng.normal(size=5)]
        ok, problems, obs = real_check(np.asarray(jax.random.PRNGKey(int(rng.integers(1 << 30)))), *v)
        pts += 1
        if not ok:
            chk.violation("mh_step:concrete-point", "property fails at a translator-validation point", dict(reproduced=True, observed=obs, note="; ".join(problems)))
    chk.validated_points = pts
    obs_ += int_state_obligation(chk)
    obs_ += abstract_interface_obligation(chk)
    obs_ += second_use_obligation(chk)
    chk.run(obs_)
    chk.bounds += ["all float32 values of current/proposed log-density, correction and one carried state scalar (incl. +-inf, NaN, -0)", "all 2^32 values of an int32 state entry outside the proposal",
                   "all 2^32 values of the random word behind jax.random.uniform", "no other bound: mh_step has no loops"]
    chk.assume("exp is an uninterpreted float32 function constrained by: NaN<->NaN, non-negative, exp(-inf)=+0, exp(+inf)=+inf, exp(+-0)=1, >=1 on x>=0, <=1 on x<0, monotone",
               "random_bits(key) is an arbitrary 32-bit word (ideal PRNG)",
               "the log ratio is (proposed - current) + correction in float32, as the statement writes it (other associations lose the correction by absorption and are reported)",
               "model interface: DictInterface whose log_prob reads a state entry (update_state/log_prob traced from the real class)")
    return chk.finish(technique=TECH)


TECH = "jaxpr of the real mh_step interpreted over z3 Float32/BitVec terms; z3 decides each negated obligation (QF_FPBV + UF exp)"


def replay(path):
    with open(path) as f:
        r = json.load(f)
    i = r["replay"]["inputs"]
    if "n" in i:
        out = traced_int(jnp.asarray(i["key"], dtype=jnp.uint32), jnp.float32(i["cur"]), jnp.float32(i["prop"]), jnp.float32(i["corr"]), jnp.float32(0.1), jnp.float32(0.2), jnp.int32(i["n"]))
        same = int(out["n"]) == int(np.int32(i["n"]))
        print("observed:", dict(n_in=i["n"], n_returned=int(out["n"]), moved=bool(out["moved"])))
        print("property holds at this input" if same else "VIOLATION reproduced: integer state entry changed")
        return 0 if same else 1
    ok, problems, obs = real_check(np.asarray(i["key"], dtype=np.uint32), i["cur"], i["prop"], i["corr"], i["x"], i["xp"])
    print("observed:", obs)
    print("property holds at this input" if ok else "VIOLATION reproduced: " + "; ".join(problems))
    return 0 if ok else 1
