"""C03 State-passing model interface is pure and equivalent to direct assignment (Engine B)."""
import copy
import dataclasses
import re
from typing import NamedTuple

import jax
import jax.numpy as jnp
import numpy as np
import z3

from .. import models as M
from ..harness import Check, Enc, Obligation, all_eq, cells, symlike

TECH = ("one jaxpr per model of: update_state on a used interface (after an earlier call), on a fresh interface, direct assignment + Model.update() on a private copy, "
        "extract_position, log_prob and vmap(update_state); interpreted over z3 reals; z3 decides each negated obligation; non-mutation by before/after comparison around the traced calls")


def regression_with_report():
    """regression model plus a derived reporting node that feeds no distribution"""
    import liesel.model as lsl
    import tensorflow_probability.substrates.jax.bijectors as tfb
    import tensorflow_probability.substrates.jax.distributions as tfd
    sigma = lsl.param(1.5, lsl.Dist(tfd.InverseGamma, concentration=2.0, scale=0.5), name="sigma")
    beta = lsl.param(jnp.zeros(2), lsl.Dist(tfd.Normal, loc=0.0, scale=10.0), name="beta")
    X = lsl.obs(jnp.asarray(M.X3), name="X")
    mu = lsl.Var(lsl.Calc(jnp.dot, X, beta), name="mu")
    y = lsl.obs(jnp.asarray(M.Y3), lsl.Dist(tfd.Normal, loc=mu, scale=sigma), name="y")
    resid = lsl.Var(lsl.Calc(lambda a, b: a - b, y, mu), name="resid")
    sigma.transform(tfb.Exp())
    return lsl.GraphBuilder().add(y, resid).build_model()


def int_exposure_model():
    """a data node that was initialised with integers (stored dtype int32) and is part of the position"""
    import liesel.model as lsl
    import tensorflow_probability.substrates.jax.distributions as tfd
    expo = lsl.Var(jnp.array([1, 2, 3]), name="exposure")
    rate = lsl.param(0.7, lsl.Dist(tfd.Gamma, concentration=2.0, rate=1.0), name="rate")
    lam = lsl.Var(lsl.Calc(lambda e, r: e * r, expo, rate), name="lam")
    y = lsl.obs(jnp.array([0.5, 1.5, 2.5]), lsl.Dist(tfd.Normal, loc=lam, scale=1.0), name="y")
    return lsl.GraphBuilder().add(y).build_model()


def ambiguous_key_model():
    """a position key that is both a variable's name and the name of another node (a weight node `w` next to a parameter variable `w`,
    whose value node is `w_value`): update_state and extract_position must address the same slot"""
    import liesel.model as lsl
    import tensorflow_probability.substrates.jax.distributions as tfd
    wnode = lsl.Value(2.0, _name="w")
    wvar = lsl.param(0.3, lsl.Dist(tfd.Normal, loc=0.0, scale=1.0), name="w")
    loc = lsl.Var(lsl.Calc(lambda a, b: a * b, wnode, wvar), name="loc")
    y = lsl.obs(jnp.array([0.5, 1.5]), lsl.Dist(tfd.Normal, loc=loc, scale=1.0), name="y")
    return lsl.GraphBuilder().add(y).build_model()


def optional_none_model():
    """a model with an optional hyper-parameter whose value is None ("no cap") and a node that returns None while the cap is absent"""
    import liesel.model as lsl
    import tensorflow_probability.substrates.jax.distributions as tfd
    cap = lsl.Value(None, _name="cap")
    beta = lsl.param(jnp.array([0.4, -0.3]), lsl.Dist(tfd.Normal, loc=0.0, scale=2.0), name="beta")
    X = jnp.array([[1.0, 0.5], [1.0, -1.0], [1.0, 2.0]])
    mu = lsl.Var(lsl.Calc(lambda b, c: X @ b if c is None else jnp.minimum(X @ b, c), beta, cap), name="mu")
    slack = lsl.Value(0.0, _name="slack_in")
    gap = lsl.Calc(lambda c, m: None if c is None else c - jnp.max(m), cap, mu, _name="gap")
    y = lsl.obs(jnp.array([0.3, 0.9, 1.1]), lsl.Dist(tfd.Normal, loc=mu, scale=1.0), name="y")
    return lsl.GraphBuilder().add(y, gap, slack).build_model()


def _reg_goose():
    return regression_with_report()


SCENARIOS = {
    # name: (builder, first position keys, second position keys, same state object for both calls)
    "regression+report/same-state": (regression_with_report, ["beta", "sigma_transformed"], ["beta"], True),
    "regression+report/node-names": (regression_with_report, ["sigma_transformed_value"], ["beta_value", "sigma_transformed_value"], False),
    "weak-hierarchy": (M.weak_hierarchy, ["mu", "ls"], ["ls"], False),
    "degenerate-mvn-prior": (M.mvnd_prior, ["beta"], ["tau2"], True),
    "user-supplied totals": (M.user_totals, ["mu"], ["mu"], False),
    "auto_transform": (M.auto_transform, ["mu", "tau_transformed"], ["tau_transformed"], True),
    # the deprecated alias lsl.GooseModel carries its own copy of the interface code; and models whose auto-update is switched off
    "regression+report/GooseModel": (regression_with_report, ["beta", "sigma_transformed"], ["beta"], False),
    "regression+report/GooseModel/auto_update=False": (regression_with_report, ["beta", "sigma_transformed"], ["sigma_transformed"], False),
    "regression+report/auto_update=False": (regression_with_report, ["beta", "sigma_transformed"], ["beta"], True),
    # a position may hold real values for a node that was initialised with integers: they are assigned as they are (no cast back)
    "int-initialised node in the position": (int_exposure_model, ["exposure", "rate"], ["exposure"], False),
    "key that names a node and a variable": (ambiguous_key_model, ["w"], ["w"], False),
    # an optional input that is None in the incoming state, after an earlier call that supplied it
    "optional None-valued input": (optional_none_model, ["cap"], ["beta"], False, {"cap": jnp.asarray(0.8)}),
}


def liesel_scenario(chk, name):
    import liesel.goose as gs
    import liesel.model as lsl
    build, keys1, keys2, same, *p1_over = SCENARIOS[name]
    import warnings
    model = build()
    if "auto_update=False" in name:
        model.auto_update = False
    Iface = lsl.GooseModel if "GooseModel" in name else gs.LieselInterface
    before = jax.tree_util.tree_map(lambda x: np.asarray(x).copy(), M.values_of(model.state))
    settings0 = dict(auto_update=model.auto_update)
    with warnings.catch_warnings():
        warnings.simplefilter("ignore")
        used, fresh = Iface(model), Iface(model)
    # reference models are built independently through the public API (not through the private-copy helper the interface itself uses)
    direct_model = build()
    state_model = build()
    if "auto_update=False" in name:
        direct_model.auto_update = state_model.auto_update = False
    strong_all = M.strong_names(model)

    class _MK:
        """coherent, complete input states from arbitrary input values: a private model copy evaluated from scratch
        (independent of the interface under test)"""

        @staticmethod
        def update_state(sv, st):
            state_model.state = st
            for k in strong_all:
                if k in sv:
                    state_model.nodes[k]._value = sv[k]
            for nd in state_model.nodes.values():
                nd._outdated = nd.name not in strong_all
            state_model.update()
            for nd in state_model.nodes.values():
                nd._outdated = False
            return state_model.state
    mk = _MK
    st0 = model.state
    if used.log_prob(st0) is None:
        chk.violation(f"{name}:log_prob-none", f"[{name}] interface.log_prob(model.state) returns None although the model's log-probability is {float(np.asarray(model.log_prob)):.4f}",
                      dict(reproduced=True, observed=dict(interface_log_prob=None, model_log_prob=float(np.asarray(model.log_prob))), note="concrete call on the built model's own state"))
        return None
    strong = [k for k in M.strong_names(model)]
    vals0 = M.values_of(st0)
    free = [k for k in strong if k in vals0 and np.asarray(vals0[k]).dtype.kind == "f" and not M.is_concrete_name(k)]
    s_ex = {k: jnp.asarray(vals0[k]) for k in free}

    def getpos(keys, off):
        return {k: jnp.asarray(used.extract_position([k], st0)[k]) + off for k in keys}
    p1_ex, p2_ex = (dict(p1_over[0]) if p1_over else getpos(keys1, 0.1)), getpos(keys2, 0.2)
    mutated = []

    def f(p1, sv1, p2, sv2):
        S1 = mk.update_state(sv1, st0)                  # coherent, complete input states built from free input values
        S2 = S1 if same else mk.update_state(sv2, st0)
        snap = {k: v.value for k, v in S2.items()}
        r1 = used.update_state(p1, S1)
        r2 = used.update_state(p2, S2)
        mutated.append(any(S2[k].value is not snap[k] for k in snap) or set(S2) != set(snap))
        r2f = fresh.update_state(p2, S2)
        m = direct_model
        m.auto_update = True
        m.state = S2
        for n in m.nodes.values():
            n._outdated = False
        for k, v in p2.items():
            if k in m.nodes:
                m.nodes[k].value = v
            else:
                m.vars[k].value = v
        m.update()
        direct = m.state
        vv = M.values_of
        return dict(r2=vv(r2), r2f=vv(r2f), direct=vv(direct), extract=used.extract_position(list(p2), r2), extract_gen=used.extract_position((k_ for k_ in list(p2)), r2), lp=used.log_prob(r2), S2=vv(S2),
                    flags=jnp.asarray([bool(v.outdated) for v in r2.values()]))
    pre = "".join(ch for ch in name if ch.isalnum())
    sym = (symlike(p1_ex, pre + "p1"), symlike(s_ex, pre + "s1"), symlike(p2_ex, pre + "p2"), symlike(s_ex, pre + "s2"))
    dom = {}
    for tree, ex in zip(sym, (p1_ex, s_ex, p2_ex, s_ex)):
        for k, a in tree.items():
            for c, v in zip(cells(a), np.asarray(ex[k]).reshape(-1)):
                v = float(v)
                dom[c.decl().name()] = (0.7 * v, 1.3 * v) if v > 0 else ((1.3 * v, 0.7 * v) if v < 0 else (-0.5, 0.5))
    enc = chk.note_enc(Enc(f"interface laws[{name}]", f, (p1_ex, s_ex, p2_ex, s_ex), sym, domain=dom))
    # non-mutation, eager call on a state with PENDING updates (auto-update off, outdated flags set): values, flags and the entries themselves
    # of the caller's state must be what they were
    def pending_state_untouched():
        mp = build()                      # a second, independently built model of the same program
        mp.auto_update = False
        k0 = next(k for k in strong if np.asarray(vals0[k]).dtype.kind == "f")
        mp.nodes[k0].value = jnp.asarray(vals0[k0]) + 0.25
        stp = mp.state
        snap = {k: (v, bool(v.outdated), np.asarray(v.value).copy() if v.value is not None else None) for k, v in stp.items()}
        if not any(o for _, o, _ in snap.values()):
            return None
        used.update_state(p1_ex, stp)
        bad = [k for k, (obj, o, val) in snap.items() if k not in stp or stp[k] is not obj or bool(stp[k].outdated) != o
               or (val is not None and not np.array_equal(np.asarray(stp[k].value), val, equal_nan=True))]
        return bad + [k for k in stp if k not in snap]
    bad = chk.guarded(f"{name}:pending-state", f"[{name}] eager update_state on a state with pending updates", pending_state_untouched)
    if bad:
        chk.violation(f"{name}:input-state-mutated", f"[{name}] update_state modified the caller's model state (entries {bad[:4]}: value, outdated flag or the entry object itself changed)",
                      dict(reproduced=True, observed=dict(changed_entries=bad[:8]), note="eager call on the state of a model with auto-update off and pending updates; concrete observation"))
    # non-mutation (concrete observations around the traced calls)
    if any(mutated):
        chk.violation(f"{name}:input-state-mutated", f"[{name}] update_state modified the caller's model state dict", dict(reproduced=True, note="object identity of the state entries changed during the call"))
    settings1 = dict(auto_update=model.auto_update)
    if settings1 != settings0:
        chk.violation(f"{name}:user-model-settings", f"[{name}] building / using the interface changed a setting of the user's own model: {settings0} -> {settings1}",
                      dict(reproduced=True, observed=dict(before=settings0, after=settings1), note="concrete observation around the interface construction and the traced calls"))
    after = M.values_of(model.state)
    if set(after) != set(before) or any(not np.array_equal(np.asarray(after[k]), before[k], equal_nan=True) for k in before):
        chk.violation(f"{name}:user-model-mutated", f"[{name}] the user's original model changed while the interface was used", dict(reproduced=True, note="model.state before/after differ"))
    obs = []
    p2sym = sym[2]

    def same_state(a, b):
        return z3.And(*[all_eq(a[k], b[k]) for k in a if k in b]) if a else z3.BoolVal(True)

    def keyset_ok(V):
        o = V.out
        return set(o["r2"]) == set(o["r2f"]) == set(o["direct"])
    obs.append(Obligation(f"[{name}] result depends only on the two arguments: used interface (after an earlier call) = fresh interface", [enc],
                          lambda V: ([], z3.And(same_state(V.out["r2"], V.out["r2f"]), z3.BoolVal(keyset_ok(V)))), signature=f"{name}:history-independent"))
    obs.append(Obligation(f"[{name}] update_state = assigning the position to the model directly and updating it fully (every node, incl. derived nodes that feed no distribution)", [enc],
                          lambda V: ([], same_state(V.out["r2"], V.out["direct"])), signature=f"{name}:equals-direct"))
    obs.append(Obligation(f"[{name}] extract_position(keys, update_state(position, state)) = position", [enc],
                          lambda V: ([], z3.And(z3.BoolVal(set(V.out["extract"]) == set(p2sym) == set(V.out["extract_gen"])),
                                                *[z3.And(all_eq(V.out["extract"][k], p2sym[k]), all_eq(V.out["extract_gen"][k], p2sym[k])) for k in p2sym if k in V.out["extract_gen"] and k in V.out["extract"]])),
                          signature=f"{name}:put-get"))
    obs.append(Obligation(f"[{name}] interface.log_prob(state) = the model's log-probability at those values", [enc],
                          lambda V: ([], z3.And(all_eq(V.out["lp"], V.out["direct"]["_model_log_prob"]), all_eq(V.out["lp"], V.out["r2"]["_model_log_prob"]))),
                          signature=f"{name}:log_prob"))
    if bool(np.any(np.asarray(jax.eval_shape(f, p1_ex, s_ex, p2_ex, s_ex)["flags"].shape))) is not None:
        pass
    return obs, enc, model


def vmap_scenario(chk):
    """batching: vmap(update_state) over a batch of two positions agrees element-wise with the unbatched calls"""
    import liesel.goose as gs
    model = regression_with_report()
    it = gs.LieselInterface(model)
    st0 = model.state
    keys = ["beta", "sigma_transformed"]
    p_ex = {k: jnp.stack([jnp.asarray(it.extract_position([k], st0)[k]) + 0.1, jnp.asarray(it.extract_position([k], st0)[k]) - 0.2]) for k in keys}

    def f(pb):
        batched = jax.vmap(lambda p: M.values_of(it.update_state(p, st0)))(pb)
        single = [M.values_of(it.update_state({k: v[i] for k, v in pb.items()}, st0)) for i in range(2)]
        jitted = None
        return dict(batched=batched, s0=single[0], s1=single[1])
    sym = (symlike(p_ex, "vm"),)
    enc = chk.note_enc(Enc("vmap(update_state)[regression+report]", f, (p_ex,), sym))

    def g(V):
        b = V.out["batched"]
        return [], z3.And(*[all_eq(b[k][i], V.out[f"s{i}"][k]) for k in b for i in range(2)])
    return [Obligation("[regression+report] batched update_state (vmap, batch of 2) agrees element-wise with the unbatched calls", [enc], g, signature="vmap")], enc


# ------------------------------------------------------------------ dict / dataclass / named tuple interfaces
@dataclasses.dataclass
class DCState:
    x: jnp.ndarray
    loc: jnp.ndarray
    scale: jnp.ndarray


@dataclasses.dataclass
class DCLate:
    """dataclass state with a field that is not a constructor argument (set after construction) and one rewritten by __post_init__"""
    x: jnp.ndarray
    loc: jnp.ndarray
    scale: jnp.ndarray = dataclasses.field(init=False, default=1.0)
    calls: int = 0

    def __post_init__(self):
        self.calls = self.calls + 1


def _dclate(x, l, s):
    st = DCLate(x, l)
    st.scale = s
    return st


class NTState(NamedTuple):
    x: jnp.ndarray
    loc: jnp.ndarray
    scale: jnp.ndarray


def simple_interfaces(chk):
    import liesel.goose as gs
    from liesel.goose.pytree import register_dataclass_as_pytree
    try:
        register_dataclass_as_pytree(DCState)
    except ValueError:
        pass
    lp_attr = lambda s: -0.5 * ((s.x - s.loc) / s.scale) ** 2 - jnp.log(s.scale)
    lp_dict = lambda s: -0.5 * ((s["x"] - s["loc"]) / s["scale"]) ** 2 - jnp.log(s["scale"])
    cases = {"DictInterface": (gs.DictInterface(lp_dict), lambda x, l, s: {"x": x, "loc": l, "scale": s}, lambda st, k: st[k]),
             "DataclassInterface": (gs.DataclassInterface(lp_attr), lambda x, l, s: DCState(x, l, s), getattr),
             "DataclassInterface/init=False field": (gs.DataclassInterface(lp_attr), _dclate, getattr),
             "NamedTupleInterface": (gs.NamedTupleInterface(lp_attr), lambda x, l, s: NTState(x, l, s), getattr)}
    obs = []
    for nm, (it, mkstate, get) in cases.items():
        def f(x, l, s, nx, nl, it=it, mkstate=mkstate, get=get):
            st = mkstate(x, l, s)
            new = it.update_state({"x": nx, "loc": nl}, st)
            again = it.update_state({"x": nx, "loc": nl}, st)
            extra = [jnp.asarray(float(new.calls - st.calls))] if isinstance(st, DCLate) else []     # a non-position attribute must come through unchanged
            return dict(new=[get(new, k) for k in ("x", "loc", "scale")], again=[get(again, k) for k in ("x", "loc", "scale")], old=[get(st, k) for k in ("x", "loc", "scale")],
                        ext=it.extract_position(["x", "loc"], new), lp=it.log_prob(new), extra=extra)
        tag = re.sub(r"[^A-Za-z0-9]", "_", nm)
        names = [f"{tag}_{v}" for v in ("x", "l", "s", "nx", "nl")]
        consts = [z3.Real(n) for n in names]
        sym = tuple(np.array(c, dtype=object).reshape(()) for c in consts)
        enc = chk.note_enc(Enc(f"{nm} laws", f, (0.1, 0.2, 1.5, 0.3, -0.4), sym, domain={names[2]: (0.5, 2.0)}))
        x, l, s, nx, nl = consts

        def g(V, x=x, l=l, s=s, nx=nx, nl=nl):
            o = V.out
            want_lp = -V.c(0.5) * ((nx - nl) / s) * ((nx - nl) / s) - V.log(s)
            return [s > 0], z3.And(cells(o["new"][0])[0] == nx, cells(o["new"][1])[0] == nl, cells(o["new"][2])[0] == s,
                                   cells(o["old"][0])[0] == x, cells(o["old"][1])[0] == l, cells(o["old"][2])[0] == s,
                                   cells(o["ext"]["x"])[0] == nx, cells(o["ext"]["loc"])[0] == nl, cells(o["lp"])[0] == want_lp,
                                   *[cells(a)[0] == cells(b)[0] for a, b in zip(o["new"], o["again"])], *[cells(a)[0] == 0 for a in o["extra"]])
        obs.append(Obligation(f"{nm}: put/get, untouched entries, input state not modified, log_prob of the updated state", [enc], g, signature=f"{nm}:laws"))
    return obs


def main():
    chk = Check("C03")
    names = list(SCENARIOS) if chk.tier == "thorough" else ["regression+report/same-state", "regression+report/node-names", "weak-hierarchy", "user-supplied totals", "auto_transform",
                                                             "regression+report/GooseModel", "regression+report/GooseModel/auto_update=False", "regression+report/auto_update=False", "int-initialised node in the position", "key that names a node and a variable", "optional None-valued input"]
    obs = []
    for nm in names:
        res = chk.guarded(f"{nm}:trace", f"[{nm}] tracing the interface calls", liesel_scenario, chk, nm)
        if res is None:
            continue
        o, enc, model = res
        obs += o
        chk.validate(enc)
        # eager vs jit at one concrete point (bit-level agreement is XLA's business; compared to 1e-5)
        ex = enc.example_args
        pair = chk.guarded(f"{nm}:eager-jit", f"[{nm}] calling update_state eagerly and under jit", lambda: (enc.fn(*ex), jax.jit(enc.fn)(*ex)))
        if pair is None:
            continue
        la, lb = jax.tree_util.tree_leaves(pair[0]), jax.tree_util.tree_leaves(pair[1])
        if len(la) != len(lb) or any(not np.allclose(np.asarray(x), np.asarray(y), rtol=1e-5, atol=1e-6, equal_nan=True) for x, y in zip(la, lb)):
            chk.violation(f"{nm}:eager-vs-jit", f"[{nm}] update_state gives different results eagerly and under jit", dict(reproduced=True, note="concrete comparison at the example point"))
    o, enc = vmap_scenario(chk)
    obs += o
    obs += simple_interfaces(chk)
    chk.run(obs)
    chk.functions += ["liesel.goose.interface.LieselInterface.update_state / extract_position / log_prob / __init__", "liesel.model.model.Model._copy_computational_model / state / update",
                      "liesel.goose.interface.DictInterface / DataclassInterface / NamedTupleInterface"]
    chk.bounds += ["positions and input states symbolic reals (shapes of the model family); two consecutive calls on the used interface (earlier call arbitrary position/state)",
                   "vmap batch of 2"]
    chk.enumerated += names + ["vmap on regression+report", "Dict/Dataclass/NamedTuple interface with a 3-field state", "dataclass state with an init=False field and a __post_init__ counter"]
    chk.assume("input states are coherent and complete (documented precondition of update_state): they are produced by update_state from arbitrary input values on a third interface instance",
               "eager = traced semantics (the jaxpr is what jit compiles); eager/jit compared concretely at one point per model", "real arithmetic")
    return chk.finish(technique=TECH)
