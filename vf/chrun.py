"""Engine A runner: CrossHair (symbolic execution of the real Python code, z3 per path) on harness
conditions, one OS process per condition, verdict parsing, native replay of counterexamples,
reachability twins."""
from __future__ import annotations

import concurrent.futures as cf
import importlib
import os
import re
import shutil
import subprocess
import sys
import tempfile
import time

from .harness import REPO, VERIF, Result

CROSSHAIR = os.path.join(os.path.dirname(sys.executable), "crosshair")


class Cond:
    def __init__(self, module, func, name=None, timeout_s=120, signature=None, env=None, twin=True, per_path_timeout=None):
        self.module, self.func = module, func
        self.name = name or f"{module}.{func}"
        self.timeout_s, self.signature, self.env, self.twin = timeout_s, signature or func, env or {}, twin
        self.per_path_timeout = per_path_timeout


def _source_path(module):
    return os.path.join(VERIF, *module.split(".")) + ".py"


def _line_of(path, func):
    with open(path) as f:
        for i, l in enumerate(f, 1):
            if re.match(rf"\s*def {re.escape(func)}\(", l):
                return i + 1
    raise RuntimeError(f"{func} not found in {path}")


def _make_twin_file(path, funcs, tmpdir):
    """copy of the harness module with, for each function, a twin whose postcondition is negated:
    it must be REFUTED (some path satisfies the preconditions and reaches a `return True`)"""
    src = open(path).read()
    out = src
    for fn in funcs:
        m = re.search(rf"^def {re.escape(fn)}\(.*?(?=^def |\Z)", src, re.S | re.M)
        if not m:
            continue
        body = m.group(0)
        tw = body.replace(f"def {fn}(", f"def {fn}__twin(", 1).replace("post: _ == True", "post: _ == False")
        out += "\n\n" + tw
    p = os.path.join(tmpdir, os.path.basename(path))
    with open(p, "w") as f:
        f.write(out)
    return p


def _run_one(path, func, timeout_s, env, per_path_timeout=None):
    line = _line_of(path, func)
    e = dict(os.environ)
    e.update(env)
    e["PYTHONPATH"] = os.pathsep.join([os.path.dirname(path), os.environ.get("VERIF_REPO", REPO), VERIF] + ([e["PYTHONPATH"]] if e.get("PYTHONPATH") else []))
    cmd = [CROSSHAIR, "check", "--report_all", "--per_condition_timeout", str(timeout_s)]
    if per_path_timeout:
        cmd += ["--per_path_timeout", str(per_path_timeout)]
    cmd.append(f"{path}:{line}")
    t0 = time.time()
    try:
        p = subprocess.run(cmd, capture_output=True, text=True, timeout=timeout_s * 3 + 120, env=e, cwd=os.path.dirname(path))
        out = p.stdout + p.stderr
    except subprocess.TimeoutExpired as ex:
        out = "TIMEOUT " + str(ex)
    secs = time.time() - t0
    verdict, detail = "unknown", out.strip()[-600:]
    if "Confirmed over all paths" in out:
        verdict = "confirmed"
    m = re.search(r"error: (.*?) when calling (\w+)\((.*)\) \(which returns (.*)\)\s*$", out, re.M) or \
        re.search(r"error: (.*?) when calling (\w+)\((.*)\)()\s*$", out, re.M)
    if m:
        verdict = "refuted"
        detail = dict(message=m.group(1), func=m.group(2), args=m.group(3), returns=m.group(4))
    elif "Not confirmed" in out:
        verdict = "not-confirmed"
    elif "Unable to meet precondition" in out:
        verdict = "unmet-precondition"
    return verdict, detail, secs


def native_replay(module, func, args, env):
    """run the harness function natively (no CrossHair) on the counterexample's arguments"""
    code = (f"import sys, importlib; m = importlib.import_module('{module}'); "
            f"r = eval('m.{func}(' + {args!r} + ')', dict(vars(m), m=m)); print('RESULT', r)")
    e = dict(os.environ)
    e.update(env)
    try:
        p = subprocess.run([sys.executable, "-c", code], capture_output=True, text=True, timeout=600, env=e, cwd=VERIF)
    except subprocess.TimeoutExpired:
        return None, "native replay timed out"
    m = re.search(r"RESULT (.*)", p.stdout)
    if m:
        return m.group(1).strip(), p.stdout[-300:]
    err = (p.stderr or p.stdout)
    # an exception caused by a limitation of the pure-Python stand-in environment (an array operation it does not model) says nothing about
    # the code under test: classified separately, reported as a harness error, never as a violation
    tail = err[-1500:]
    last = tail.strip().splitlines()[-1] if tail.strip() else ""
    fake_names = ("'Cell'", "'TimeSeq'", "'IntList'", "'BoolList'", "'KeyT'", "'KeyVec'", "'KeyList'", "'InfoCell'", "SimpleNamespace", "'FakeModel'", "'_FakeJax'", "'_S'")
    innermost_files = re.findall(r'File "([^"]+)", line', tail)
    in_fake = bool(innermost_files) and innermost_files[-1].replace(os.sep, "/").endswith("vf/ch/fakeenv.py")
    if in_fake or (last.startswith(("TypeError", "AttributeError", "NotImplementedError")) and any(n in last for n in fake_names)):
        return "FAKEENV", err[-600:]
    return "EXC", err[-600:]


def run_conditions(chk, conds, workers=None):
    """run all conditions (and their twins) in parallel; record results on the Check"""
    workers = workers or max(1, min(14, (os.cpu_count() or 2) - 2))
    only = os.environ.get("VERIF_ONLY")
    if only:
        conds = [c for c in conds if only in c.name or only in c.signature]
    tmp = tempfile.mkdtemp(prefix="vfch_")
    try:
        twin_paths = {}
        by_mod = {}
        for c in conds:
            by_mod.setdefault(c.module, []).append(c)
        for mod, cs in by_mod.items():
            twin_paths[mod] = _make_twin_file(_source_path(mod), sorted({c.func for c in cs if c.twin}), tmp)
        jobs = {}
        with cf.ThreadPoolExecutor(max_workers=workers) as ex:
            for c in conds:
                jobs[ex.submit(_run_one, _source_path(c.module), c.func, c.timeout_s, c.env, c.per_path_timeout)] = (c, "goal")
                if c.twin:
                    jobs[ex.submit(_run_one, twin_paths[c.module], c.func + "__twin", max(60, c.timeout_s // 3), c.env, c.per_path_timeout)] = (c, "twin")
            res = {}
            for f in cf.as_completed(jobs):
                c, kind = jobs[f]
                res[(c.name, kind)] = f.result()
        for c in conds:
            verdict, detail, secs = res[(c.name, "goal")]
            tw = res.get((c.name, "twin"))

            class _Ob:
                pass
            ob = _Ob()
            ob.name, ob.signature = c.name, c.signature
            info = {"tactic": "crosshair", "tried": [("crosshair", verdict)]}
            if verdict == "confirmed":
                r = Result(ob, "unsat", secs, info)
                if tw is not None:
                    r.twin = "sat" if tw[0] == "refuted" else tw[0]
                    r.seconds += tw[2]
                chk.record(r)
            elif verdict == "refuted":
                val, out = native_replay(c.module, detail["func"], detail["args"], c.env)
                is_exc = not detail["message"].strip().lower().startswith("false")
                # the native run decides: the harness function returning False on these inputs is a violation of the
                # property on the real code, whatever CrossHair's own message was
                if val == "FAKEENV":
                    chk.record(Result(ob, "unknown", secs, info, detail="the stand-in environment does not model an operation the code under test uses on this path "
                                      "(harness limitation, not a finding): " + out.strip()[-260:]))
                    continue
                reproduced = (val == "False") or (is_exc and val == "EXC")
                rp = dict(reproduced=reproduced, inputs=dict(call=f"{detail['func']}({detail['args']})"), observed=dict(native_result=val),
                          note=(detail["message"] + " | " + out.strip()[-300:]) if reproduced else "counterexample did not reproduce natively: " + out[-200:])
                r = Result(ob, "sat", secs, info, replay=rp)
                chk.record(r)
            else:
                chk.record(Result(ob, "unknown", secs, info, detail=f"crosshair: {verdict}: {str(detail)[-300:]}"))
            if os.environ.get("VERIF_VERBOSE"):
                print(f"  [{verdict:12s}] {secs:7.1f}s twin={tw[0] if tw else None} {c.name}")
    finally:
        shutil.rmtree(tmp, ignore_errors=True)
