"""`verif_stub`: marks a callee that the harness re-bound inside a traced function.

Tracing mode (default): binds a custom JAX primitive that shows up in the jaxpr; the
interpreter records the argument terms and emits fresh output variables.
Spy mode (replay / translator validation): calls the real callee and records the concrete
arguments and results, so that obligations over "what the callee was given" can be
re-evaluated on the un-stubbed code.
"""
import contextlib

import jax
import jax.numpy as jnp
import numpy as np
from jax.extend import core as jex_core

stub_p = jex_core.Primitive("verif_stub")
stub_p.multiple_results = True
stub_p.def_abstract_eval(lambda *a, name, out_avals, n_args: [jax.core.ShapedArray(s, d) for s, d in out_avals])


def _impl(*a, name, out_avals, n_args):
    raise RuntimeError(f"verif_stub[{name}] executed concretely outside spy mode")


stub_p.def_impl(_impl)

SPY = {"on": False, "log": []}


@contextlib.contextmanager
def spy():
    SPY["on"] = True
    SPY["log"] = []
    try:
        yield SPY["log"]
    finally:
        SPY["on"] = False


def stub(name, args, like, real=None):
    """record `args` (a pytree) and return fresh values shaped like `like` (a pytree of arrays
    or ShapeDtypeStructs); in spy mode call `real(*args)` instead."""
    if SPY["on"]:
        if real is None:
            raise RuntimeError(f"stub {name} has no real implementation for spy mode")
        out = real(*args) if isinstance(args, tuple) else real(args)
        if any(isinstance(x, jax.core.Tracer) for x in jax.tree_util.tree_leaves((args, out))):
            return out          # called under a jax transformation (e.g. inside lax.cond): cannot be recorded
        SPY["log"].append((name, [np.asarray(x) for x in jax.tree_util.tree_leaves(args)],
                           [np.asarray(x) for x in jax.tree_util.tree_leaves(out)]))
        return out
    flat, tree = jax.tree_util.tree_flatten(like)
    leaves = [jnp.asarray(x) for x in jax.tree_util.tree_leaves(args)]
    outs = stub_p.bind(*leaves, name=name, n_args=len(leaves),
                       out_avals=tuple((tuple(jnp.shape(x)), jnp.result_type(x)) for x in flat))
    return jax.tree_util.tree_unflatten(tree, outs)
