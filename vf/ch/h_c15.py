"""C15 harness: naming laws of the real GraphBuilder / Model with symbolic names, and the freeze
guards with a symbolic choice of mutator, target and argument."""
import logging
from typing import List

logging.disable(logging.WARNING)

import networkx as nx

import liesel.model as lsl
from liesel.model.model import GraphBuilder, Model
from liesel.model.nodes import Calc, Dist, Value, Var

# pre-warm networkx's dispatch machinery outside the tracer
_g = nx.DiGraph([(1, 2)])
list(nx.topological_sort(_g))


class StubDist:
    def __init__(self, loc):
        self.loc = loc

    def log_prob(self, x):
        return 2 * x - self.loc


def check_names(n1: str, n2: str, n3: str) -> bool:
    """
    generated names are non-empty and collide with nothing; user-given names are kept
    pre: len(n1) <= 2 and len(n2) <= 2 and len(n3) <= 2
    post: _ == True
    """
    a = Value(1, _name=n1)
    b = Value(2, _name=n2)
    c = Calc(lambda x, y: x + y, a, b, _name=n3, update_on_init=False)
    user = [n for n in (n1, n2, n3) if n]
    gb = GraphBuilder(to_float32=False).add(c)
    gb._set_missing_names()
    names = [a.name, b.name, c.name]
    if any(not n for n in names):
        return False
    if (n1 and a.name != n1) or (n2 and b.name != n2) or (n3 and c.name != n3):
        return False
    dup_user = len(set(user)) < len(user)
    if not dup_user and len(set(names)) < 3:
        return False
    return True


def check_var_names(v1: str, v2: str) -> bool:
    """
    pre: len(v1) <= 2 and len(v2) <= 2
    post: _ == True
    """
    x = Var(1, name=v1)
    y = Var(Calc(lambda u: u + 1, x, update_on_init=False), name=v2)
    gb = GraphBuilder(to_float32=False).add(y)
    gb._set_missing_names()
    if not x.name or not y.name:
        return False
    if (v1 and x.name != v1) or (v2 and y.name != v2):
        return False
    if not (v1 and v2 and v1 == v2) and x.name == y.name:
        return False
    return True


class _NoGraphs:
    """during the symbolic name conditions the graph construction (networkx) is concretised away: the
    accept/reject decision on names does not depend on it (stated in the evidence)"""

    def __enter__(self):
        import liesel.model.model as mm
        self.mm = mm
        self.saved = (mm.Model._build_node_graph, mm.Model._build_var_graph, mm.Model._build_simulation_graph)
        empty = staticmethod(lambda nodes: _EMPTY)
        mm.Model._build_node_graph = empty
        mm.Model._build_var_graph = empty
        mm.Model._build_simulation_graph = empty
        return self

    def __exit__(self, *a):
        self.mm.Model._build_node_graph, self.mm.Model._build_var_graph, self.mm.Model._build_simulation_graph = self.saved


_EMPTY = nx.DiGraph()


def _build_ok(names) -> bool:
    with _NoGraphs():
        return _build_ok_inner(names)


def _build_ok_inner(names) -> bool:
    n1, n2 = names
    a = Value(1, _name=n1)
    b = Value(2, _name=n2)
    c = Calc(lambda x, y: x + y, a, b, _name="c", update_on_init=False)
    user = [n for n in (n1, n2, "c") if n]
    reserved = any(n.startswith("_model") for n in user)
    dup = len(set(user)) < len(user)
    try:
        m = GraphBuilder(to_float32=False).add(c).build_model()
    except RuntimeError:
        return dup or reserved
    if dup or reserved:
        return False
    names_ = list(m.nodes)
    if len(set(names_)) != len(names_) or any(not n for n in names_):
        return False
    return (not n1 or n1 in names_) and (not n2 or n2 in names_)


def check_build(n1: str, n2: str) -> bool:
    """
    a graph is rejected iff user names collide (duplicate) -- names of <= 1 character plus the fixed node "c"
    pre: len(n1) <= 1 and len(n2) <= 1
    post: _ == True
    """
    return _build_ok((n1, n2))


def check_reserved(n1: str) -> bool:
    """
    a node name is rejected iff it starts with the reserved prefix "_model"
    pre: len(n1) <= 7
    post: _ == True
    """
    return _build_ok((n1, "b"))


# ---------------------------------------------------------------------------- freeze guards
def _frozen_model():
    mu = Var(1, name="mu")
    cv = Var(Value(5, _name="custom_value_name"), name="cv")            # variable whose value node carries a custom name
    x = lsl.obs(3, Dist(StubDist, loc=mu), name="x")
    y = Var(Calc(lambda u, w: u + 2 * w, x, cv, update_on_init=False), name="y")
    return lsl.GraphBuilder(to_float32=False).add(y).build_model()


FM = _frozen_model()
NODES = [FM.nodes[n] for n in sorted(FM.nodes)]
VARS = [FM.vars[n] for n in sorted(FM.vars)]
NODE_MUT = ["name", "needs_seed", "add_inputs", "set_inputs", "function", "at", "distribution", "per_obs"]
VAR_MUT = ["name", "observed", "parameter", "dist_node", "value_node"]


def _node_obs(n):
    return (n.name, n.needs_seed, tuple(id(i) for i in n.inputs), tuple((k, id(v)) for k, v in n.kwinputs.items()), id(getattr(n, "function", None)),
            id(getattr(n, "at", None)), id(getattr(n, "distribution", None)), getattr(n, "per_obs", None), id(n.model))


def _var_obs(v):
    return (v.name, v.observed, v.parameter, id(v.dist_node), id(v.value_node), id(v.model), v.value_node.name)


def check_frozen_node(which: int, target: int, s: str, b: bool) -> bool:
    """
    every structural mutation of a node that belongs to a model is rejected and leaves it unchanged
    pre: 0 <= which < len(NODE_MUT) and 0 <= target < len(NODES) and len(s) <= 2
    post: _ == True
    """
    node = NODES[target]
    mut = NODE_MUT[which]
    if mut in ("function",) and not isinstance(node, Calc):
        return True
    if mut in ("at", "distribution", "per_obs") and not isinstance(node, Dist):
        return True
    before = _node_obs(node)
    names_before = sorted(FM.nodes)
    try:
        if mut == "name":
            node.name = s
        elif mut == "needs_seed":
            node.needs_seed = b
        elif mut == "add_inputs":
            node.add_inputs(Value(1, _name=s))
        elif mut == "set_inputs":
            node.set_inputs(Value(1, _name=s))
        elif mut == "function":
            node.function = lambda *a: 0
        elif mut == "at":
            node.at = Value(0, _name=s)
        elif mut == "distribution":
            node.distribution = StubDist
        elif mut == "per_obs":
            node.per_obs = b
    except RuntimeError:
        return _node_obs(node) == before and sorted(FM.nodes) == names_before
    return False


def check_frozen_var(which: int, target: int, s: str, b: bool) -> bool:
    """
    every structural mutation of a variable that belongs to a model is rejected and leaves it unchanged
    pre: 0 <= which < len(VAR_MUT) and 0 <= target < len(VARS) and len(s) <= 3
    post: _ == True
    """
    var = VARS[target]
    mut = VAR_MUT[which]
    before = _var_obs(var)
    try:
        if mut == "name":
            var.name = s
        elif mut == "observed":
            var.observed = b
        elif mut == "parameter":
            var.parameter = b
        elif mut == "dist_node":
            var.dist_node = None
        elif mut == "value_node":
            var.value_node = Value(0, _name=s)
    except RuntimeError:
        return _var_obs(var) == before
    return False
