"""C08 / C10 / C16 harness around the real EngineBuilder: tracked-key selection, JIT chunk length,
integer seed = PRNG key, single / per-chain initial values.  `Engine` is re-bound to a recorder so
that build() only shows what it hands over; math.gcd is re-bound to a pure-Python Euclid (contract of
math.gcd) so that the epoch durations stay symbolic."""
import logging
import types
import warnings
from typing import List

warnings.filterwarnings("ignore")
logging.disable(logging.WARNING)

import jax
import jax.numpy as jnp
import numpy as np

import liesel.goose as gs
import liesel.goose.builder as bld
from liesel.goose.epoch import EpochConfig, EpochType

from vf.ch import fakeenv as fj


class Rec:
    last = None

    def __init__(self, **kw):
        Rec.last = kw


def _pygcd(*xs):
    g = 0
    for x in xs:
        a, b = g, x
        while b:
            a, b = b, a % b
        g = a
    return g


class _FakeJax:
    """PRNGKey(n) -> term ("seed", n); split -> key-term vector; Array = the key-term class"""
    Array = fj.KeyT
    random = types.SimpleNamespace(PRNGKey=lambda n: fj.KeyT(("seed", n)), split=lambda k, n=2: fj.KeyVec(k, n))
    vmap = staticmethod(lambda f, *a, **k: f)


bld.Engine = Rec
bld.math = types.SimpleNamespace(gcd=_pygcd)
bld.jax = _FakeJax
KEYS = ["a", "b", "c", "d"]


class FakeModel:
    def extract_position(self, keys, ms):
        return {k: ms[k] for k in keys}

    def update_state(self, pos, ms):
        return ms | pos

    def log_prob(self, ms):
        return 0.0


def _builder(durations=(2, 2), kernel_keys=("a",)):
    from liesel.option import Option
    b = gs.EngineBuilder(seed=1, num_chains=2)
    b.set_model(FakeModel())
    b._model_state = Option({k: fj.Cell(("init", k)) for k in KEYS})
    b.add_kernel(gs.RWKernel(list(kernel_keys)))
    b.set_epochs([EpochConfig(EpochType.INITIAL_VALUES, 1, 1, None)] + [EpochConfig(EpochType.BURNIN, d, 1, None) for d in durations])
    return b


def check_tracked(inc: List[bool], exc: List[bool]) -> bool:
    """
    tracked keys = (kernel position keys + positions_included) without positions_excluded (excluded overrides included)
    pre: len(inc) == 4 and len(exc) == 4
    post: _ == True
    """
    b = _builder()
    b.positions_included = [k for k, m in zip(KEYS, inc) if m]
    b.positions_excluded = [k for k, m in zip(KEYS, exc) if m]
    b.build()
    got = list(Rec.last["position_keys"])
    want = [k for k in ["a"] + b.positions_included if k not in b.positions_excluded]
    if not want:
        return True      # empty selection: the engine falls back to the kernels' keys (unsupported input, not claimed)
    return set(got) == set(want) and all(k not in got for k in b.positions_excluded)


def check_chunk(d1: int, d2: int, d3: int) -> bool:
    """
    the JIT chunk length handed to the engine divides every epoch duration
    pre: 1 <= d1 <= 24 and 1 <= d2 <= 24 and 1 <= d3 <= 24
    post: _ == True
    """
    b = _builder(durations=(d1, d2, d3))
    b.build()
    c = Rec.last["jitted_sample_duration"]
    return c >= 1 and d1 % c == 0 and d2 % c == 0 and d3 % c == 0 and [e.duration for e in Rec.last["epoch_configs"]] == [1, d1, d2, d3]


def check_seed_int_equals_key(n: int) -> bool:
    """
    an integer seed is equivalent to the corresponding PRNG key: same engine / jitter / builder key terms, pairwise distinct
    pre: 0 <= n <= 2**31 - 1
    post: _ == True
    """
    b1 = gs.EngineBuilder(n, 2)
    b2 = gs.EngineBuilder(fj.KeyT(("seed", n)), 2)
    e, j, p = b1._engine_key.t, b1._jitter_key.t, b1._prng_key.t
    return e == b2._engine_key.t and j == b2._jitter_key.t and p == b2._prng_key.t and e != j and e != p and j != p


def check_set_duration(warmup: int, q: int, tp: int, term: int, tw: int) -> bool:
    """
    EngineBuilder.set_duration hands its arguments to stan_epochs unchanged (same epochs as calling it directly)
    pre: 1 <= term <= 200 and 20 <= warmup <= 2000 and 75 + term + 25 <= warmup
    pre: 1 <= tw <= 25 and tw <= term and 1 <= q <= 50 and 1 <= tp <= 4
    post: _ == True
    """
    from liesel.goose.warmup import stan_epochs
    b = gs.EngineBuilder(seed=1, num_chains=2)
    b.set_duration(warmup, q * tp, term, tp, tw)
    got = [(int(e.type), e.duration, e.thinning) for e in b._epochs._configs]
    want = [(int(e.type), e.duration, e.thinning) for e in stan_epochs(warmup, q * tp, term_duration=term, thinning_posterior=tp, thinning_warmup=tw)]
    return got == want and got[-1] == (4, q * tp, tp) and got[1][2] == tw and got[-2] == (1, term, tw)
