"""Prototype: a fake, pure-Python `jax`/`jnp`/`np` namespace for driving the *real*
engine.py / kernel_sequence.py / chain.py / epoch.py control code under CrossHair.

One chain is represented (vmap is the identity on this representation); arrays with a
time axis are `TimeSeq` objects holding one opaque cell per time index.
"""
from __future__ import annotations

import types
import jax as _realjax  # only tree utilities are used


class Cell:
    """opaque leaf value (not a pytree)"""
    __slots__ = ("v",)

    def __init__(self, v):
        self.v = v

    def __repr__(self):
        return f"Cell({self.v!r})"

    def __eq__(self, o):
        return isinstance(o, Cell) and self.v == o.v

    def __ne__(self, o):
        return not self.__eq__(o)

    def __hash__(self):
        return hash(("Cell", self.v))


class TimeSeq:
    """array [chain, time, ...] for one representative chain: list of cells over time"""
    __slots__ = ("cells",)

    def __init__(self, cells):
        self.cells = list(cells)

    @property
    def shape(self):
        return (1, len(self.cells))

    def __getitem__(self, idx):
        # idx is np.s_[:, idx, ...]
        assert isinstance(idx, tuple) and idx[0] == slice(None), idx
        sel = idx[1]
        if isinstance(sel, IntList):
            return TimeSeq([self.cells[i] for i in sel.items])
        raise NotImplementedError(idx)

    def __repr__(self):
        return f"TimeSeq({self.cells!r})"


class IntList:
    def __init__(self, items):
        self.items = list(items)

    def __add__(self, o):
        return IntList([i + o for i in self.items])

    __radd__ = __add__

    def __mod__(self, o):
        return IntList([i % o for i in self.items])

    def __eq__(self, o):
        return BoolList([i == o for i in self.items])

    def __getitem__(self, mask):
        assert isinstance(mask, BoolList)
        return IntList([i for i, m in zip(self.items, mask.items) if m])

    def __len__(self):
        return len(self.items)


class BoolList:
    def __init__(self, items):
        self.items = list(items)


class KeyT:
    """PRNG key as a derivation term"""
    __slots__ = ("t",)
    shape = (2,)

    def __init__(self, t):
        self.t = t

    def __repr__(self):
        return f"K{self.t!r}"


class KeyVec:
    """result of split(key, n): indexable"""

    def __init__(self, parent, n):
        self.parent, self.n = parent, n

    @property
    def shape(self):
        return (self.n, 2)

    def __getitem__(self, i):
        if isinstance(i, tuple):  # engine: keys[:, 0, :] / keys[:, 1:, :]
            assert i[0] == slice(None) and i[2] == slice(None)
            j = i[1]
            if isinstance(j, slice):
                return KeyList([KeyT(("split", self.parent.t, self.n, k)) for k in range(j.start or 0, self.n)])
            return KeyT(("split", self.parent.t, self.n, j))
        return KeyT(("split", self.parent.t, self.n, i))

    def __iter__(self):
        return iter(KeyT(("split", self.parent.t, self.n, k)) for k in range(self.n))


class KeyList:
    def __init__(self, keys):
        self.keys = keys

    def __getitem__(self, i):
        if isinstance(i, tuple):  # key[:, 0, :]
            return self.keys[i[1]]
        return self.keys[i]

    def __iter__(self):
        return iter(self.keys)

    def __len__(self):
        return len(self.keys)


def _split(key, n=2):
    return KeyVec(key, n)


def _vmap(f, in_axes=0, out_axes=0):
    return lambda *a, **k: f(*a, **k)


def _jit(f, **kw):
    return f


def _scan(f, init, xs):
    # lax.scan traces its body on a *copy* of the carry (flattened and rebuilt): what the body does to the carry's containers in place
    # (e.g. EpochState.advance_time) never reaches the caller's objects -- only the returned carry does
    carry = _realjax.tree_util.tree_map(lambda x: x, init)
    ys = []
    for x in xs:
        carry, y = f(_realjax.tree_util.tree_map(lambda x_: x_, carry), x)
        ys.append(y)
    if not ys:
        raise RuntimeError("empty scan")
    stacked = _realjax.tree_util.tree_map(lambda *cells: TimeSeq(cells), *ys)
    return carry, stacked


def _expand_dims(y, axis):
    assert axis == 1
    return TimeSeq([y])


def _concatenate(xs, axis=0):
    assert axis == 1
    out = []
    for x in xs:
        out.extend(x.cells)
    return TimeSeq(out)


def _any(x):
    return bool(x)


jnp = types.SimpleNamespace(expand_dims=_expand_dims, concatenate=_concatenate, any=_any)
def _dyn_slice_in_dim(x, start, size, axis=0):
    """keys[:, start:start+size, :] of a (chain, time, 2) key stand-in (jax clamps the start so that the slice fits)"""
    if not isinstance(x, KeyList) or axis != 1:
        raise NotImplementedError("fake dynamic_slice_in_dim: only the time axis of a key list")
    start = max(0, min(int(start), len(x.keys) - int(size)))
    return KeyList(x.keys[start:start + int(size)])


lax = types.SimpleNamespace(scan=_scan, dynamic_slice_in_dim=_dyn_slice_in_dim)
random = types.SimpleNamespace(split=_split)
jax = types.SimpleNamespace(vmap=_vmap, jit=_jit, lax=lax, random=random, tree_util=_realjax.tree_util,
                            numpy=jnp)


class _S:
    def __getitem__(self, i):
        return i


np = types.SimpleNamespace(arange=lambda n: IntList(range(n)), s_=_S())
