"""Validation of the fake environment used by the Engine-A harnesses: the same schedules are run
once with the real Engine on real JAX (jit disabled so that Python-level recording sees every
iteration) and once with the real Engine on the pure-Python stand-in; call logs and stored
chains must agree.  Run natively (no CrossHair) by the C07 check on every run."""
import json
import logging
import os
import subprocess
import sys
import warnings

warnings.filterwarnings("ignore")
logging.disable(logging.WARNING)

SCHEDULES = [([(1, 2, 1), (2, 4, 2), (4, 2, 1), (4, 2, 2)], 2, (True, False)),
             ([(3, 3, 3), (4, 3, 1)], 3, (False, False)),
             ([(2, 2, 2), (1, 4, 3), (3, 2, 1), (4, 4, 2)], 1, (False, True))]


def run_real(schedule, chunk, hist, jit=False):
    """the real Engine on real JAX with recording kernels (state and positions are real arrays)"""
    import jax
    import jax.numpy as jnp
    import liesel.goose as gs
    from liesel.goose.engine import Engine
    from liesel.goose.epoch import EpochConfig, EpochType
    from liesel.goose.kernel import DefaultTransitionInfo, DefaultTuningInfo, ModelMixin, TransitionMixin, TransitionOutcome, TuningMixin, TuningOutcome, WarmupOutcome
    from liesel.goose.kernel_sequence import KernelSequence
    from liesel.goose.pytree import stack_leaves
    LOG = []

    class K(ModelMixin, TransitionMixin, TuningMixin):
        error_book = {0: "no errors"}

        def __init__(self, ident, needs_history):
            self.identifier, self.needs_history, self.position_keys, self._model = ident, needs_history, ("p_" + ident,), None

        def init_state(self, key, ms):
            LOG.append(["init", self.identifier, None, None, None])
            return {"n": jnp.zeros(())}

        def _rec(self, what, epoch):
            try:
                LOG.append([what, self.identifier, int(epoch.config.type), int(epoch.time_in_epoch), int(epoch.time)])
            except Exception:          # compiled run: values are tracers, the Python-level log is not used
                LOG.append([what, self.identifier, None, None, None])

        def _step(self, what, key, ks, ms, epoch):
            self._rec(what, epoch)
            new = self.model.update_state({"p_" + self.identifier: jnp.asarray(epoch.time, jnp.float32)}, ms)
            return TransitionOutcome(DefaultTransitionInfo(0, 1.0, 1), {"n": ks["n"] + 1}, new)

        def _standard_transition(self, key, ks, ms, epoch):
            return self._step("std", key, ks, ms, epoch)

        def _adaptive_transition(self, key, ks, ms, epoch):
            return self._step("adp", key, ks, ms, epoch)

        def _tune(self, what, key, ks, ms, epoch, history):
            self._rec(what, epoch)
            if history is not None and self.needs_history:
                LOG[-1].append(int(history["p_" + self.identifier].shape[0]))      # number of recorded samples handed to tune (values are batched tracers)
            return TuningOutcome(DefaultTuningInfo(0, epoch.time), ks)

        def _tune_fast(self, key, ks, ms, epoch, history):
            return self._tune("tune_fast", key, ks, ms, epoch, history)

        def _tune_slow(self, key, ks, ms, epoch, history):
            return self._tune("tune_slow", key, ks, ms, epoch, history)

        def start_epoch(self, key, ks, ms, epoch):
            self._rec("start", epoch)
            return ks

        def end_epoch(self, key, ks, ms, epoch):
            self._rec("end", epoch)
            return ks

        def end_warmup(self, key, ks, ms, th):
            LOG.append(["end_warmup", self.identifier, None, None, None])
            return WarmupOutcome(0, ks)
    nk = len(hist)
    model = gs.DictInterface(lambda s: 0.0)
    kernels = [K(f"k{i}", hist[i]) for i in range(nk)]
    for k in kernels:
        k.set_model(model)
    cfgs = [EpochConfig(EpochType.INITIAL_VALUES, 1, 1, None)] + [EpochConfig(EpochType(t), d, th, None) for t, d, th in schedule]
    ms = stack_leaves([{f"p_k{i}": jnp.asarray(-1.0 - i) for i in range(nk)}])          # one chain
    import contextlib
    with (contextlib.nullcontext() if jit else jax.disable_jit()):
        e = Engine(jax.random.split(jax.random.PRNGKey(0), 1), ms, KernelSequence(kernels), cfgs, chunk, model, None, store_kernel_states=True, show_progress=False)
        e.sample_all_epochs()
    r = e.get_results()
    chains = {f"p_k{i}": [float(v) for v in jax.device_get(r.get_samples()[f"p_k{i}"])[0]] for i in range(nk)}
    n_infos = int(jax.device_get(r.transition_infos.combine_all().unwrap()["k0"].error_code).shape[1])
    return LOG, chains, n_infos


def run_fake(schedule, chunk, hist):
    from vf.ch import h_engine as h
    e, log = h.run(schedule, chunk, list(hist), True, None)
    LOG = []
    for (w, ident, ty, tie, t, key, extra) in log:
        row = [w, ident, ty, tie, t]
        if w.startswith("tune") and isinstance(extra, list):
            row.append(len(extra))
        LOG.append(row)
    r = e.get_results()
    chains = {}
    for i in range(len(hist)):
        cells = [c.v for c in r.get_samples()[f"p_k{i}"].cells]
        chains[f"p_k{i}"] = [(-1.0 - i) if c[0] == "init" else float(c[1]) for c in cells]
    n_infos = len(r.transition_infos.combine_all().unwrap()["k0"].cells)
    return LOG, chains, n_infos


def main():
    which = sys.argv[1]
    out = []
    for schedule, chunk, hist in SCHEDULES:
        if which == "realjit":       # compiled run: the Python-level call log only sees tracing, the stored chains (the time every kernel saw) are real
            log, chains, n = run_real(schedule, chunk, hist, jit=True)
            log = []
        else:
            log, chains, n = (run_real if which == "real" else run_fake)(schedule, chunk, hist)
        out.append(dict(log=log, chains=chains, infos=n))
    print("RESULT " + json.dumps(out))


def compare():
    """returns (ok, message, number of compared log entries)"""
    res = {}
    for which in ("real", "fake", "realjit"):
        p = subprocess.run([sys.executable, "-m", "vf.ch.validate_fake", which], capture_output=True, text=True, env=dict(os.environ), timeout=900)
        line = [l for l in p.stdout.splitlines() if l.startswith("RESULT ")]
        if not line:
            return False, f"{which} run failed: {(p.stderr or p.stdout)[-400:]}", 0
        res[which] = json.loads(line[0][7:])
    n = 0
    for k, (a, b) in enumerate(zip(res["real"], res["fake"])):
        if a["log"] != b["log"]:
            for i, (x, y) in enumerate(zip(a["log"], b["log"])):
                if x != y:
                    return False, f"schedule {k}: call {i} differs: real JAX {x} vs fake environment {y}", n
            return False, f"schedule {k}: logs differ in length ({len(a['log'])} vs {len(b['log'])})", n
        if a["chains"] != b["chains"] or a["infos"] != b["infos"]:
            return False, f"schedule {k}: stored chains differ: real {a['chains']} vs fake {b['chains']}", n
        n += len(a["log"])
    for k, (a, b) in enumerate(zip(res["realjit"], res["fake"])):
        if a["chains"] != b["chains"] or a["infos"] != b["infos"]:
            return False, f"schedule {k}: stored chains of the COMPILED real run differ from the fake environment: real {a['chains']} vs fake {b['chains']}", n
    return True, "call logs, tuning histories and stored chains identical (jit disabled); stored chains identical to the compiled run", n


if __name__ == "__main__":
    main()
