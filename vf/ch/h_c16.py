"""C16 harness conditions for CrossHair: the real EpochManager and stan_epochs are executed
symbolically (integers symbolic); oracles are the reference predicates below."""
import logging
import os
from typing import List, Tuple

logging.disable(logging.WARNING)

from liesel.goose.epoch import EpochConfig, EpochManager, EpochType
from liesel.goose.warmup import stan_epochs


def valid(cfgs: List[Tuple[int, int, int]]) -> bool:
    """reference validity predicate (the property's wording)"""
    seen_post = False
    for i, (t, d, th) in enumerate(cfgs):
        if i == 0:
            if t != 0 or d != 1:
                return False
        elif t == 0:
            return False
        if d < 1 or th < 1 or th > d:
            return False
        if t == 4:
            if d % th != 0:
                return False
            seen_post = True
        elif t != 0 and seen_post:
            return False
    return True


FORM = os.environ.get("FORM", "list")        # how the schedule is handed over: list | tuple | generator (any iterable is documented)


def _manager_ok(cfgs: List[Tuple[int, int, int]]) -> bool:
    try:
        items = [EpochConfig(EpochType(t), d, th, None) for t, d, th in cfgs]
        mgr = EpochManager(items if FORM == "list" else tuple(items) if FORM == "tuple" else (c for c in items))
    except RuntimeError:
        return not valid(cfgs)
    if not valid(cfgs):
        return False
    # epoch states handed out: consecutive indices, start times = prefix sums, fresh clocks
    start = 0
    for i, (t, d, th) in enumerate(cfgs):
        if not mgr.has_more():
            return False
        st = mgr.next()
        if st.nth_epoch != i or st.time_before_epoch != start or st.time != start or st.time_in_epoch != 0:
            return False
        if st.config.duration != d or st.config.thinning != th or int(st.config.type) != t:
            return False
        start += d
    return not mgr.has_more()


def check_iff3(cfgs: List[Tuple[int, int, int]]) -> bool:
    """
    pre: len(cfgs) <= 3
    pre: all(0 <= t <= 4 for t, d, th in cfgs)
    post: _ == True
    """
    return _manager_ok(cfgs)


def check_iff4(cfgs: List[Tuple[int, int, int]]) -> bool:
    """
    pre: len(cfgs) == 4
    pre: all(0 <= t <= 4 for t, d, th in cfgs)
    post: _ == True
    """
    return _manager_ok(cfgs)


def check_append_later(cfgs: List[Tuple[int, int, int]], extra: Tuple[int, int, int]) -> bool:
    """
    appending to a manager that already handed out epochs behaves like constructing it with the longer list
    pre: 1 <= len(cfgs) <= 2
    pre: all(0 <= t <= 4 for t, d, th in cfgs) and 0 <= extra[0] <= 4
    post: _ == True
    """
    if not valid(cfgs):
        return True
    mgr = EpochManager([EpochConfig(EpochType(t), d, th, None) for t, d, th in cfgs])
    for _ in cfgs:
        mgr.next()
    t, d, th = extra
    try:
        mgr.append(EpochConfig(EpochType(t), d, th, None))
    except RuntimeError:
        return not valid(cfgs + [extra])
    if not valid(cfgs + [extra]):
        return False
    st = mgr.next()
    return st.nth_epoch == len(cfgs) and st.time_before_epoch == sum(c[1] for c in cfgs)


NCF = int(os.environ.get("NCF", "2"))          # length of the constructor schedule (splits the work over processes)
LASTT = int(os.environ.get("LASTT", "-1"))     # type of its last epoch, -1 = symbolic


def check_append_sequence(cfgs: List[Tuple[int, int, int]], e1: Tuple[int, int, int], e2: Tuple[int, int, int]) -> bool:
    """
    two appends in a row on a live manager (as Engine.append_epoch does): each is accepted iff the schedule ACCEPTED SO FAR extended by it
    is valid -- a rejected append leaves the manager exactly as it was
    pre: len(cfgs) == NCF
    pre: all(0 <= t <= 4 for t, d, th in cfgs) and 0 <= e1[0] <= 4 and 0 <= e2[0] <= 4
    pre: LASTT < 0 or cfgs[-1][0] == LASTT
    post: _ == True
    """
    if not valid(cfgs):
        return True
    mgr = EpochManager([EpochConfig(EpochType(t), d, th, None) for t, d, th in cfgs])
    acc = list(cfgs)
    for e in (e1, e2):
        t, d, th = e
        try:
            mgr.append(EpochConfig(EpochType(t), d, th, None))
            ok = True
        except RuntimeError:
            ok = False
        if ok != valid(acc + [e]):
            return False
        if ok:
            acc = acc + [e]
    n = 0
    start = 0
    while mgr.has_more():
        st = mgr.next()
        if st.nth_epoch != n or st.time_before_epoch != start or st.config.duration != acc[n][1] or int(st.config.type) != acc[n][0]:
            return False
        start += acc[n][1]
        n += 1
    return n == len(acc)


def _stan_ok(warmup: int, q: int, tp: int, init: int, term: int, base: int, tw: int) -> bool:
    posterior = q * tp
    eps = stan_epochs(warmup, posterior, init, term, base, tp, tw)
    try:
        EpochManager(eps)
    except RuntimeError:
        return False
    if len(eps) < 5:
        return False
    e0, e1, elast, eterm = eps[0], eps[1], eps[-1], eps[-2]
    if (int(e0.type), e0.duration, e0.thinning) != (0, 1, 1):
        return False
    if (int(e1.type), e1.duration, e1.thinning) != (1, init, tw):
        return False
    if (int(eterm.type), eterm.duration, eterm.thinning) != (1, term, tw):
        return False
    if (int(elast.type), elast.duration, elast.thinning) != (4, posterior, tp):
        return False
    slow = eps[2:-2]
    w = base
    for k, e in enumerate(slow):
        if int(e.type) != 2 or e.thinning != tw:
            return False
        if k < len(slow) - 1:
            if e.duration != w:          # doubling windows
                return False
            w = 2 * w
        elif not (w <= e.duration < 3 * w):   # the last window absorbs the remainder
            return False
    return sum(e.duration for e in eps[1:-1]) == warmup


def check_stan(warmup: int, q: int, tp: int, init: int, term: int, base: int, tw: int) -> bool:
    """
    pre: 1 <= init and 1 <= term and 1 <= base
    pre: 20 <= warmup <= 3000 and init + term + base <= warmup
    pre: 1 <= tw <= init and tw <= term and tw <= base
    pre: 1 <= q <= 1000 and 1 <= tp <= 6
    post: _ == True
    """
    return _stan_ok(warmup, q, tp, init, term, base, tw)


def check_stan_wide(warmup: int, q: int, tp: int, init: int, term: int, base: int, tw: int) -> bool:
    """
    pre: 1 <= init and 1 <= term and 1 <= base
    pre: 20 <= warmup <= 100000 and init + term + base <= warmup
    pre: 1 <= tw <= init and tw <= term and tw <= base
    pre: 1 <= q <= 100000 and 1 <= tp <= 6
    post: _ == True
    """
    return _stan_ok(warmup, q, tp, init, term, base, tw)


def check_stan_rejects(warmup: int, init: int, term: int, base: int) -> bool:
    """
    documented errors: a warmup shorter than 20 or than init + term + base raises ValueError
    pre: 1 <= init <= 200 and 1 <= term <= 200 and 1 <= base <= 200 and 0 <= warmup <= 700
    pre: warmup < 20 or warmup < init + term + base
    post: _ == True
    """
    try:
        stan_epochs(warmup, 100, init, term, base)
    except ValueError:
        return True
    return False
