"""C08 harness: the real ListEpochChain.append / EpochChainManager with an arbitrary sequence of chunk
sizes and thinning, numpy replaced by the pure-Python integer-list stand-in."""
import logging
from typing import List

logging.disable(logging.WARNING)

import liesel.goose.chain as chain
import liesel.goose.pytree as pytree
from liesel.goose.chain import EpochChainManager, ListEpochChain
from liesel.goose.epoch import EpochConfig, EpochType

from vf.ch import fakeenv as fj

chain.np = fj.np
pytree.jnp = fj.jnp


def _append_ok(sizes: List[int], th: int, apply: bool) -> bool:
    total = sum(sizes)
    c = ListEpochChain(EpochConfig(EpochType.BURNIN, max(total, th, 1), th, None), apply_thinning=apply)
    g = 0
    for s in sizes:
        c.append({"x": fj.TimeSeq([fj.Cell(g + i) for i in range(s)]), "y": fj.TimeSeq([fj.Cell(("y", g + i)) for i in range(s)])})
        g += s
    got = c.get()
    want = [k for k in range(total) if (k + 1) % th == 0] if apply else list(range(total))
    if not want:
        return got.is_none() if hasattr(got, "is_none") else not got.is_some()
    if not got.is_some():
        return False
    v = got.unwrap()
    return [cc.v for cc in v["x"].cells] == want and [cc.v for cc in v["y"].cells] == [("y", k) for k in want]


def check_append(sizes: List[int], th: int, apply: bool) -> bool:
    """
    kept global indices = {g : (g+1) mod thinning == 0}, independent of how the iterations are chunked
    pre: 1 <= len(sizes) <= 3 and all(1 <= s <= 3 for s in sizes)
    pre: 1 <= th <= 4
    post: _ == True
    """
    return _append_ok(sizes, th, apply)


def check_append_wide(sizes: List[int], th: int, apply: bool) -> bool:
    """
    pre: 1 <= len(sizes) <= 4 and all(1 <= s <= 4 for s in sizes)
    pre: 1 <= th <= 6
    post: _ == True
    """
    return _append_ok(sizes, th, apply)


def check_manager(n1: int, th1: int, n2: int, th2: int, c: int) -> bool:
    """
    two epochs through the EpochChainManager: per-epoch chains, combine_all in order, posterior filter
    pre: 1 <= n1 <= 4 and 1 <= n2 <= 4 and 1 <= th1 <= n1 and 1 <= th2 <= n2 and 1 <= c <= 2
    pre: n1 % c == 0 and n2 % c == 0 and n2 % th2 == 0
    post: _ == True
    """
    m = EpochChainManager(apply_thinning=True)
    g = 0
    want_all, want_post = [], []
    for ty, n, th in ((EpochType.BURNIN, n1, th1), (EpochType.POSTERIOR, n2, th2)):
        m.advance_epoch(EpochConfig(ty, n, th, None))
        for k in range(n // c):
            m.append({"x": fj.TimeSeq([fj.Cell(g + i) for i in range(c)])})
            g += c
        kept = [g - n + j - 1 for j in range(1, n + 1) if j % th == 0]
        want_all += kept
        if ty == EpochType.POSTERIOR:
            want_post += kept
    allc = [cc.v for cc in m.combine_all().unwrap()["x"].cells]
    post = [cc.v for cc in m.combine_filtered(lambda e: e.type == EpochType.POSTERIOR).unwrap()["x"].cells]
    return allc == want_all and post == want_post
