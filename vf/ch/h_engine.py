"""Engine-A harness for C07 / C08 / C10 / C16(chunk): the real Engine, KernelSequence, EpochManager,
EpochChainManager/ListEpochChain, TransitionMixin and TuningMixin are executed under CrossHair with
JAX/numpy re-bound to the pure-Python stand-in `fakeenv` (one representative chain).

Symbolic: duration and thinning of every epoch, the JIT chunk, per-kernel needs_history, whether kernel
states are stored, and how many epochs are configured up-front (the rest is appended while sampling).
Enumerated: the epoch-type sequence (env TYPES) and the number of kernels (env NK)."""
import logging
import os
import warnings
from typing import List, Tuple

warnings.filterwarnings("ignore")
logging.disable(logging.WARNING)

import liesel.goose.chain as chain
import liesel.goose.engine as eng
import liesel.goose.kernel as kern
import liesel.goose.kernel_sequence as kseq
import liesel.goose.pytree as pytree
from liesel.goose.epoch import EpochConfig, EpochType
from liesel.goose.kernel import DefaultTuningInfo, ModelMixin, TransitionMixin, TransitionOutcome, TuningMixin, TuningOutcome, WarmupOutcome

from vf.ch import fakeenv as fj

# ---- the environment (JAX / numpy) of the driver modules is replaced; the driver code itself is untouched
eng.jax = fj.jax
eng.jnp = fj.jnp
eng.as_strong_pytree = lambda x: x
eng._split_keys = lambda k, n: fj.KeyVec(k, n)
kseq.jax = fj.jax
chain.np = fj.np
pytree.jnp = fj.jnp
kern.jax = type("J", (), {"lax": type("L", (), {"cond": staticmethod(lambda p, t, f, *ops: t(*ops) if p else f(*ops))})})

TYPES = tuple(int(x) for x in os.environ.get("TYPES", "1,3,4").split(","))
NK = int(os.environ.get("NK", "2"))
WERR = os.environ.get("WERR", "")          # identifier of a kernel whose end_warmup returns a non-zero error code ("" = none)
LOG: list = []


class FakeModel:
    def extract_position(self, keys, ms):
        return {k: ms[k] for k in keys}

    def update_state(self, pos, ms):
        return ms | pos

    def log_prob(self, ms):
        return 0.0


MINI = os.environ.get("MINI", "0") == "1"        # Engine(minimize_transition_infos=True)


class InfoCell(fj.Cell):
    """transition info of the recording kernel: `minimize()` gives the reduced info the engine stores on request"""
    __slots__ = ()

    def minimize(self):
        return fj.Cell(("mini",) + tuple(self.v[1:]))


class RecKernel(ModelMixin, TransitionMixin, TuningMixin):
    """records every call; writes Cell((kernel, time)) into its position key so that stored samples
    identify the iteration that produced them"""
    error_book = {0: "no errors"}

    def __init__(self, ident, needs_history):
        self.identifier = ident
        self.needs_history = needs_history
        self.position_keys = ("p_" + ident,)
        self._model = FakeModel()

    def init_state(self, key, ms):
        LOG.append(("init", self.identifier, None, None, None, key.t, None))
        return fj.Cell(("ks", self.identifier, 0))

    def _rec(self, what, key, epoch, extra=None):
        LOG.append((what, self.identifier, int(epoch.config.type), epoch.time_in_epoch, epoch.time, key.t, extra))

    def _step(self, what, key, ks, ms, epoch):
        self._rec(what, key, epoch)
        k = "p_" + self.identifier
        return TransitionOutcome(InfoCell(("info", self.identifier, epoch.time)), fj.Cell(("ks", self.identifier, epoch.time + 1)),
                                 ms | {k: fj.Cell((self.identifier, epoch.time)), "shared": fj.Cell(("shared", self.identifier, epoch.time))})

    def _standard_transition(self, key, ks, ms, epoch):
        return self._step("std", key, ks, ms, epoch)

    def _adaptive_transition(self, key, ks, ms, epoch):
        return self._step("adp", key, ks, ms, epoch)

    def _hist(self, history):
        if history is None:
            return None
        if not self.needs_history:
            return "not-requested"
        if "p_" + self.identifier not in history:
            return "not-tracked"            # the user deselected this kernel's key: the engine must not track it on its own
        return [c.v for c in history["p_" + self.identifier].cells]

    def _tune_fast(self, key, ks, ms, epoch, history):
        self._rec("tune_fast", key, epoch, self._hist(history))
        return TuningOutcome(DefaultTuningInfo(fj.Cell(0), fj.Cell(epoch.time)), ks)

    def _tune_slow(self, key, ks, ms, epoch, history):
        self._rec("tune_slow", key, epoch, self._hist(history))
        return TuningOutcome(DefaultTuningInfo(fj.Cell(0), fj.Cell(epoch.time)), ks)

    def start_epoch(self, key, ks, ms, epoch):
        self._rec("start", key, epoch)
        return ks

    def end_epoch(self, key, ks, ms, epoch):
        self._rec("end", key, epoch)
        return ks

    def end_warmup(self, key, ks, ms, th):
        LOG.append(("end_warmup", self.identifier, None, None, None, key.t, None))
        return WarmupOutcome(7 if self.identifier == WERR else 0, ks)      # a kernel may report a warmup error code: the lifecycle is the same


class RecGenerator:
    """recording quantity generator: its output identifies the model state it was generated from"""
    error_book = {0: "no errors"}

    def __init__(self, ident):
        self.identifier = ident
        self._model = FakeModel()

    def set_model(self, model):
        self._model = model

    def has_model(self):
        return True

    def generate(self, key, ms, epoch):
        LOG.append(("generate", self.identifier, int(epoch.config.type), epoch.time_in_epoch, epoch.time, key.t, None))
        return fj.Cell(("q", self.identifier, ms["shared"].v))


QG = int(os.environ.get("QG", "0"))          # number of quantity generators


def run(schedule, chunk, hist, store_ks=True, upfront=None, tracked=None):
    """schedule: [(type, duration, thinning)] after the initial epoch.  upfront: how many of them are
    configured at construction; the others are appended one at a time once everything configured was sampled."""
    LOG.clear()
    nk = len(hist)
    kernels = [RecKernel(f"k{i}", hist[i]) for i in range(nk)]
    upfront = len(schedule) if upfront is None else upfront
    cfgs = [EpochConfig(EpochType.INITIAL_VALUES, 1, 1, None)] + [EpochConfig(EpochType(t), d, th, None) for t, d, th in schedule[:upfront]]
    ms = {("p_k%d" % i): fj.Cell(("init", i)) for i in range(nk)}
    ms["shared"] = fj.Cell(("init", "shared"))
    gens = [RecGenerator(f"g{i}") for i in range(QG)]
    e = eng.Engine(fj.KeyT(("seed",)), ms, kseq.KernelSequence(kernels), cfgs, chunk, FakeModel(), tracked, store_kernel_states=store_ks, show_progress=False,
                   quantity_generators=gens, minimize_transition_infos=MINI)
    e.sample_all_epochs()
    for t, d, th in schedule[upfront:]:
        e.append_epoch(EpochConfig(EpochType(t), d, th, None))
        e.sample_next_epoch()
    return e, list(LOG)


# ------------------------------------------------------------------ reference lifecycle (the property's wording)
def expected_log(schedule, nk, hist):
    out = [("init", i) for i in range(nk)]
    t = 1
    warm_ended = False
    for (ty, d, th) in schedule:
        if ty == 4 and not warm_ended:
            out += [("end_warmup", i) for i in range(nk)]       # exactly once, immediately before the first posterior epoch
            warm_ended = True
        out += [("start", i, ty, 0, t) for i in range(nk)]
        for j in range(d):
            out += [("adp" if ty in (1, 2) else "std", i, ty, j, t + j) for i in range(nk)]
        out += [("end", i, ty, d, t + d) for i in range(nk)]
        if ty in (1, 2):
            out += [("tune_slow" if ty == 2 else "tune_fast", i, ty, d, t + d) for i in range(nk)]
        t += d
    return out


def simplify(log):
    log = [x for x in log if x[0] != "generate"]
    return [(w, int(i[1:])) if w in ("end_warmup", "init") else (w, int(i[1:]), ty, tie, t) for (w, i, ty, tie, t, key, extra) in log]


def expected_chain(schedule, kid):
    """stored cells of kernel kid's position: initial value, then the within-epoch iterations th, 2 th, ..."""
    cells = [("init", kid)]
    post = []
    t = 1
    per_epoch = []
    for (ty, d, th) in schedule:
        ep = []
        for j in range(1, d + 1):
            if j % th == 0:
                ep.append((f"k{kid}", t + j - 1))
        cells += ep
        per_epoch.append(ep)
        if ty == 4:
            post += ep
        t += d
    return cells, post, per_epoch


def lifecycle_ok(schedule, chunk, hist, store_ks, upfront) -> bool:
    nk = len(hist)
    e, log = run(schedule, chunk, hist, store_ks, upfront)
    if simplify(log) != expected_log(schedule, nk, hist):
        return False
    # tuning receives exactly that epoch's recorded (thinned) history when the kernel asked for it
    any_hist = any(hist)
    adapt = [k for k, (ty, d, th) in enumerate(schedule) if ty in (1, 2)]
    for kid in range(nk):
        got = [x[6] for x in log if x[0].startswith("tune") and x[1] == f"k{kid}"]
        if len(got) != len(adapt):
            return False
        if hist[kid]:
            want = [expected_chain(schedule, kid)[2][k] for k in adapt]
            if got != want:
                return False
        elif not any_hist and any(g is not None for g in got):
            return False
    return True


TRACK = [k for k in os.environ.get("TRACK", "").split(",") if k]          # explicit tracked position keys ("" = the engine's default)


def chains_ok(schedule, chunk, hist, store_ks, upfront) -> bool:
    nk = len(hist)
    e, log = run(schedule, chunk, hist, store_ks, upfront, tracked=TRACK or None)
    r = e.get_results()
    total = sum(d for _, d, _ in schedule)
    if TRACK and set(r.get_samples()) != set(TRACK):          # exactly the requested keys are stored (deselected keys are respected)
        return False
    for kid in range(nk):
        if TRACK and f"p_k{kid}" not in TRACK:
            continue
        cells, post, _ = expected_chain(schedule, kid)
        got = [c.v for c in r.get_samples()[f"p_k{kid}"].cells]
        if got != cells:
            return False
        if post:
            ps = r.get_posterior_samples()
            if [c.v for c in ps[f"p_k{kid}"].cells] != post:
                return False
    # every stored value is the state after ALL kernels of that iteration ran: the shared key was written last by the last kernel
    ti = r.transition_infos.combine_all().unwrap()
    for kid in range(nk):
        infos = [c.v for c in ti[f"k{kid}"].cells]
        if infos != [("mini" if MINI else "info", f"k{kid}", 1 + j) for j in range(total)]:      # one info per transition, unthinned, in order
            return False
    if QG:
        gq = r.generated_quantities.unwrap().combine_all().unwrap()
        last = f"k{nk - 1}"
        for gi in range(QG):
            want = [("q", f"g{gi}", ("init", "shared"))]
            t = 1
            for (ty, d, th) in schedule:
                want += [("q", f"g{gi}", ("shared", last, t + j - 1)) for j in range(1, d + 1) if j % th == 0]
                t += d
            if [c.v for c in gq[f"g{gi}"].cells] != want:
                return False
        # one generate call per iteration and generator (plus one for the initial values), each after the last kernel of its iteration
        gen_calls = [x for x in log if x[0] == "generate"]
        if len(gen_calls) != QG * (1 + total):
            return False
    elif r.generated_quantities.is_some():
        return False
    ks_opt = r.kernel_states
    if store_ks:
        ks = ks_opt.unwrap().combine_all().unwrap()
        for kid in range(nk):
            got = [c.v for c in ks[kid].cells]
            if got != [("ks", f"k{kid}", 0)] + [("ks", f"k{kid}", 2 + j) for j in range(total)]:
                return False
    elif ks_opt.is_some():
        return False
    return True


def keys_ok(schedule, chunk, hist, store_ks, upfront) -> bool:
    e, log = run(schedule, chunk, hist, store_ks, upfront)
    keys = [x[5] for x in log]
    if len(set(keys)) != len(keys):          # every kernel call receives a distinct key term
        return False
    # ... and all of them are derived from the seed only
    def rooted(t):
        while isinstance(t, tuple) and t and t[0] == "split":
            t = t[1]
        return t == ("seed",)
    if not all(rooted(k) for k in keys):
        return False
    # independence: no call's key is derived from another call's key (a key that was handed out is never split further by the driver)
    used = set(keys)
    for k in keys:
        t = k
        while isinstance(t, tuple) and t and t[0] == "split":
            t = t[1]
            if t in used:
                return False
    return True


NH = tuple(c == "1" for c in os.environ.get("NH", "10"))[:NK]          # per-kernel needs_history
STORE = os.environ.get("STORE", "1") == "1"                             # store_kernel_states
UPFRONT = int(os.environ.get("UPFRONT", "3"))                           # epochs configured at construction (others appended late)


def _schedule(d1, th1, d2, th2, d3, th3):
    return [(ty, d, th) for ty, (d, th) in zip(TYPES, [(d1, th1), (d2, th2), (d3, th3)])]


def check_lifecycle(d1: int, th1: int, d2: int, th2: int, d3: int, th3: int, chunk: int) -> bool:
    """
    pre: 1 <= d1 <= 3 and 1 <= d2 <= 3 and 1 <= d3 <= 4
    pre: 1 <= th1 <= d1 and 1 <= th2 <= d2 and 1 <= th3 <= d3
    pre: 1 <= chunk <= 3 and d1 % chunk == 0 and d2 % chunk == 0 and d3 % chunk == 0
    post: _ == True
    """
    schedule = _schedule(d1, th1, d2, th2, d3, th3)
    if any(ty == 4 and d % th != 0 for ty, d, th in schedule):
        return True
    return lifecycle_ok(schedule, chunk, list(NH), STORE, UPFRONT)


def check_chains(d1: int, th1: int, d2: int, th2: int, d3: int, th3: int, chunk: int) -> bool:
    """
    pre: 1 <= d1 <= 3 and 1 <= d2 <= 3 and 1 <= d3 <= 4
    pre: 1 <= th1 <= d1 and 1 <= th2 <= d2 and 1 <= th3 <= d3
    pre: 1 <= chunk <= 3 and d1 % chunk == 0 and d2 % chunk == 0 and d3 % chunk == 0
    post: _ == True
    """
    schedule = _schedule(d1, th1, d2, th2, d3, th3)
    if any(ty == 4 and d % th != 0 for ty, d, th in schedule):
        return True
    return chains_ok(schedule, chunk, list(NH), STORE, UPFRONT)


def check_keys(d1: int, th1: int, d2: int, th2: int, d3: int, th3: int, chunk: int) -> bool:
    """
    pre: 1 <= d1 <= 3 and 1 <= d2 <= 3 and 1 <= d3 <= 4
    pre: 1 <= th1 <= d1 and 1 <= th2 <= d2 and 1 <= th3 <= d3
    pre: 1 <= chunk <= 3 and d1 % chunk == 0 and d2 % chunk == 0 and d3 % chunk == 0
    post: _ == True
    """
    schedule = _schedule(d1, th1, d2, th2, d3, th3)
    if any(ty == 4 and d % th != 0 for ty, d, th in schedule):
        return True
    return keys_ok(schedule, chunk, list(NH), STORE, UPFRONT)


def check_lifecycle_q(d1: int, th1: int, d2: int, th2: int, d3: int, th3: int, chunk: int) -> bool:
    """
    pre: 1 <= d1 <= 2 and 1 <= d2 <= 2 and 1 <= d3 <= 3
    pre: 1 <= th1 <= d1 and 1 <= th2 <= d2 and 1 <= th3 <= d3
    pre: 1 <= chunk <= 2 and d1 % chunk == 0 and d2 % chunk == 0 and d3 % chunk == 0
    post: _ == True
    """
    schedule = _schedule(d1, th1, d2, th2, d3, th3)
    if any(ty == 4 and d % th != 0 for ty, d, th in schedule):
        return True
    return lifecycle_ok(schedule, chunk, list(NH), STORE, UPFRONT)


def check_chains_q(d1: int, th1: int, d2: int, th2: int, d3: int, th3: int, chunk: int) -> bool:
    """
    pre: 1 <= d1 <= 2 and 1 <= d2 <= 2 and 1 <= d3 <= 3
    pre: 1 <= th1 <= d1 and 1 <= th2 <= d2 and 1 <= th3 <= d3
    pre: 1 <= chunk <= 2 and d1 % chunk == 0 and d2 % chunk == 0 and d3 % chunk == 0
    post: _ == True
    """
    schedule = _schedule(d1, th1, d2, th2, d3, th3)
    if any(ty == 4 and d % th != 0 for ty, d, th in schedule):
        return True
    return chains_ok(schedule, chunk, list(NH), STORE, UPFRONT)


def check_keys_q(d1: int, th1: int, d2: int, th2: int, d3: int, th3: int, chunk: int) -> bool:
    """
    pre: 1 <= d1 <= 2 and 1 <= d2 <= 2 and 1 <= d3 <= 3
    pre: 1 <= th1 <= d1 and 1 <= th2 <= d2 and 1 <= th3 <= d3
    pre: 1 <= chunk <= 2 and d1 % chunk == 0 and d2 % chunk == 0 and d3 % chunk == 0
    post: _ == True
    """
    schedule = _schedule(d1, th1, d2, th2, d3, th3)
    if any(ty == 4 and d % th != 0 for ty, d, th in schedule):
        return True
    return keys_ok(schedule, chunk, list(NH), STORE, UPFRONT)


def _multi(q1, q3, th3, chunk):
    return _schedule(chunk * q1, 1, chunk, 1, chunk * q3, th3)


def check_keys_chunks(q1: int, q3: int, th3: int, chunk: int) -> bool:
    """
    epochs sampled in several JIT chunks of more than one iteration (durations chunk*q1, chunk, chunk*q3)
    pre: 1 <= q1 <= 2 and 1 <= q3 <= 2 and 2 <= chunk <= 3 and 1 <= th3 <= 2
    post: _ == True
    """
    schedule = _multi(q1, q3, th3, chunk)
    if any(ty == 4 and d % th != 0 for ty, d, th in schedule):
        return True
    return keys_ok(schedule, chunk, list(NH), STORE, UPFRONT)


def check_lifecycle_chunks(q1: int, q3: int, th3: int, chunk: int) -> bool:
    """
    pre: 1 <= q1 <= 2 and 1 <= q3 <= 2 and 2 <= chunk <= 3 and 1 <= th3 <= 2
    post: _ == True
    """
    schedule = _multi(q1, q3, th3, chunk)
    if any(ty == 4 and d % th != 0 for ty, d, th in schedule):
        return True
    return lifecycle_ok(schedule, chunk, list(NH), STORE, UPFRONT)


def check_chains_chunks(q1: int, q3: int, th3: int, chunk: int) -> bool:
    """
    pre: 1 <= q1 <= 2 and 1 <= q3 <= 2 and 2 <= chunk <= 3 and 1 <= th3 <= 2
    post: _ == True
    """
    schedule = _multi(q1, q3, th3, chunk)
    if any(ty == 4 and d % th != 0 for ty, d, th in schedule):
        return True
    return chains_ok(schedule, chunk, list(NH), STORE, UPFRONT)


def _schedule4(d1, th1, d2, th2, d3, th3, d4, th4):
    return [(ty, d, th) for ty, (d, th) in zip(TYPES, [(d1, th1), (d2, th2), (d3, th3), (d4, th4)])]


def check_all4(d1: int, th1: int, d2: int, th2: int, d3: int, th3: int, d4: int, th4: int, chunk: int) -> bool:
    """
    four epochs after the initial one (TYPES has four entries): lifecycle, stored chains and key terms
    pre: 1 <= d1 <= 2 and 1 <= d2 <= 2 and 1 <= d3 <= 2 and 1 <= d4 <= 2
    pre: 1 <= th1 <= d1 and 1 <= th2 <= d2 and 1 <= th3 <= d3 and 1 <= th4 <= d4
    pre: 1 <= chunk <= 2 and d1 % chunk == 0 and d2 % chunk == 0 and d3 % chunk == 0 and d4 % chunk == 0
    post: _ == True
    """
    schedule = _schedule4(d1, th1, d2, th2, d3, th3, d4, th4)
    if any(ty == 4 and d % th != 0 for ty, d, th in schedule):
        return True
    up = min(UPFRONT, 4)
    return lifecycle_ok(schedule, chunk, list(NH), STORE, up) and chains_ok(schedule, chunk, list(NH), STORE, up) and keys_ok(schedule, chunk, list(NH), STORE, up)


if __name__ == "__main__":
    e, log = run([(1, 2, 1), (2, 4, 2), (4, 2, 1), (4, 2, 2)], 2, [True, False])
    r = e.get_results()
    print(r.get_samples())
    print(lifecycle_ok([(1, 2, 1), (2, 4, 2), (4, 2, 1), (4, 2, 2)], 2, [True, False], True, 2), chains_ok([(1, 2, 1), (2, 4, 2), (4, 2, 1), (4, 2, 2)], 2, [True, False], True, 2),
          keys_ok([(1, 2, 1), (2, 4, 2), (4, 2, 1), (4, 2, 2)], 2, [True, False], True, 2))
