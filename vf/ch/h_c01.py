"""C01 harness: one operation of the real model from an ARBITRARY state that satisfies the cache
invariant (inductive step; histories of any length follow by induction).  Node values are symbolic
integers, flags symbolic booleans.  Each graph is data: the liesel model and the from-scratch
reference evaluator are generated from the same description."""
import logging
import os
from typing import List

logging.disable(logging.WARNING)

import liesel.model as lsl
from liesel.model.model import Model
from liesel.model.nodes import Calc, Dist, TransientCalc, Value, Var

GRAPH = os.environ.get("GRAPH", "diamond")
COUNT: dict = {}


def counted(name, f):
    def g(*a, **k):
        COUNT[name] = COUNT.get(name, 0) + 1
        return f(*a, **k)
    return g


class StubDist:
    """integer-linear 'log density': 2 x - 3 loc + scale"""

    def __init__(self, loc, scale=0):
        self.loc, self.scale = loc, scale

    def log_prob(self, x):
        COUNT["dist"] = COUNT.get("dist", 0) + 1
        return 2 * x - 3 * self.loc + self.scale


# ---------------------------------------------------------------------------- graph programs
# Each returns: model, VALUES (assignable input node names), CACHING (caching derived node names, topological),
# F (name -> function of env of all names), DEPS (name -> direct dependencies, by name; transient nodes included)
def g_chain():
    a, b = Value(1, _name="a"), Value(2, _name="b")
    c = Calc(counted("c", lambda x, y: 2 * x + 3 * y + 1), a, b, _name="c")
    t = TransientCalc(lambda x: x + 7, c, _name="t")
    d = Calc(counted("d", lambda x, y: 5 * x - y), t, b, _name="d")
    e = Calc(counted("e", lambda x: x * 3), a, _name="e")
    g = Calc(counted("g", lambda x, y: x - 2 * y), d, e, _name="g")
    m = Model([g], to_float32=False)
    F = {"c": lambda v: 2 * v["a"] + 3 * v["b"] + 1, "t": lambda v: v["c"] + 7, "d": lambda v: 5 * v["t"] - v["b"], "e": lambda v: v["a"] * 3, "g": lambda v: v["d"] - 2 * v["e"]}
    DEPS = {"c": ["a", "b"], "t": ["c"], "d": ["t", "b"], "e": ["a"], "g": ["d", "e"]}
    return m, ["a", "b"], ["c", "d", "e", "g"], ["t"], F, DEPS


def g_diamond():
    a, b = Value(1, _name="a"), Value(2, _name="b")
    g = Calc(counted("g", lambda x: 2 * x + 1), a, _name="g")
    c = Calc(counted("c", lambda x, y: x + 3 * y), g, b, _name="c")
    h = Calc(counted("h", lambda x, y: x - y), c, g, _name="h")
    k = Calc(counted("k", lambda y: 4 * y + 2), b, _name="k")
    m = Model([h, k], to_float32=False)
    F = {"g": lambda v: 2 * v["a"] + 1, "c": lambda v: v["g"] + 3 * v["b"], "h": lambda v: v["c"] - v["g"], "k": lambda v: 4 * v["b"] + 2}
    DEPS = {"g": ["a"], "c": ["g", "b"], "h": ["c", "g"], "k": ["b"]}
    return m, ["a", "b"], ["g", "c", "h", "k"], [], F, DEPS


def g_dist():
    """strong variable with a distribution (value proxy node, `at` edge) and the model-level totals"""
    mu = Var(1, name="mu")
    s = Var(2, name="s")
    x = lsl.obs(3, Dist(StubDist, loc=mu, scale=s), name="x")
    p = lsl.param(4, Dist(StubDist, loc=s), name="p")
    y = Var(Calc(counted("y", lambda u, w: u + 2 * w), x, p), name="y")
    m = lsl.GraphBuilder(to_float32=False).add(y).build_model()
    F = {"x_log_prob": lambda v: 2 * v["x_value"] - 3 * v["mu_value"] + v["s_value"], "p_log_prob": lambda v: 2 * v["p_value"] - 3 * v["s_value"],
         "y_value": lambda v: v["x_value"] + 2 * v["p_value"], "_model_log_lik": lambda v: v["x_log_prob"], "_model_log_prior": lambda v: v["p_log_prob"],
         "_model_log_prob": lambda v: v["x_log_prob"] + v["p_log_prob"]}
    DEPS = {"x_log_prob": ["x_value", "mu_value", "s_value"], "p_log_prob": ["p_value", "s_value"], "y_value": ["x_value", "p_value"], "_model_log_lik": ["x_log_prob"],
            "_model_log_prior": ["p_log_prob"], "_model_log_prob": ["x_log_prob", "p_log_prob"]}
    return m, ["mu_value", "s_value", "x_value", "p_value"], ["x_log_prob", "p_log_prob", "y_value", "_model_log_lik", "_model_log_prior", "_model_log_prob"], [], F, DEPS


def g_weak():
    """weak variable (computed value) with a distribution: the Dist's `at` edge points to a calculation"""
    a = Var(1, name="a")
    b = Var(2, name="b")
    z = Var(Calc(counted("z", lambda u: 2 * u + 1), a), Dist(StubDist, loc=b), name="z")
    w = Var(Calc(counted("w", lambda u, q: u - q), z, b), name="w")
    m = lsl.GraphBuilder(to_float32=False).add(w).build_model()
    F = {"z_value": lambda v: 2 * v["a_value"] + 1, "z_log_prob": lambda v: 2 * v["z_value"] - 3 * v["b_value"], "w_value": lambda v: v["z_value"] - v["b_value"],
         "_model_log_prob": lambda v: v["z_log_prob"]}
    DEPS = {"z_value": ["a_value"], "z_log_prob": ["z_value", "b_value"], "w_value": ["z_value", "b_value"], "_model_log_prob": ["z_log_prob"]}
    return m, ["a_value", "b_value"], ["z_value", "z_log_prob", "w_value", "_model_log_prob"], [], F, DEPS


def g_dist2():
    """small version of `dist`: one observed strong variable with a distribution (value proxy, `at` edge), a derived variable, model totals"""
    mu = Var(1, name="mu")
    x = lsl.obs(3, Dist(StubDist, loc=mu), name="x")
    y = Var(Calc(counted("y", lambda u: 3 * u - 1), x), name="y")
    m = lsl.GraphBuilder(to_float32=False).add(y).build_model()
    F = {"x_log_prob": lambda v: 2 * v["x_value"] - 3 * v["mu_value"], "y_value": lambda v: 3 * v["x_value"] - 1, "_model_log_lik": lambda v: v["x_log_prob"],
         "_model_log_prob": lambda v: v["x_log_prob"]}
    DEPS = {"x_log_prob": ["x_value", "mu_value"], "y_value": ["x_value"], "_model_log_lik": ["x_log_prob"], "_model_log_prob": ["x_log_prob"]}
    return m, ["mu_value", "x_value"], ["x_log_prob", "y_value", "_model_log_lik", "_model_log_prob"], [], F, DEPS


def g_raiser():
    """a node function that rejects one input value (raises): an assignment whose auto-update raises must still leave a coherent cache"""
    a, b = Value(1, _name="a"), Value(2, _name="b")
    g = Calc(counted("g", lambda x: 2 * x + 1), a, _name="g")

    def fc(x, y, z):
        if x == 13:
            raise ValueError("rejected input")
        return x + 3 * y + 0 * z
    c = Calc(counted("c", fc), a, b, g, _name="c")
    h = Calc(counted("h", lambda x, y: x - y), c, g, _name="h")
    m = Model([h], to_float32=False)
    F = {"g": lambda v: 2 * v["a"] + 1, "c": lambda v: v["a"] + 3 * v["b"], "h": lambda v: v["c"] - v["g"]}
    DEPS = {"g": ["a"], "c": ["a", "b", "g"], "h": ["c", "g"]}
    return m, ["a", "b"], ["g", "c", "h"], [], F, DEPS


def g_pass():
    """a node whose function hands one of its arguments through unchanged (the recomputed value is the very same object as the cached one when
    that argument was not assigned), feeding a node that also reads the assigned input directly"""
    a, b = Value(1, _name="a"), Value(2, _name="b")
    p = Calc(counted("p", lambda x, y: y), a, b, _name="p")
    c = Calc(counted("c", lambda x, y: x + 2 * y), p, a, _name="c")
    k = Calc(counted("k", lambda x, y: 3 * x - y), c, p, _name="k")
    m = Model([k], to_float32=False)
    F = {"p": lambda v: v["b"], "c": lambda v: v["p"] + 2 * v["a"], "k": lambda v: 3 * v["c"] - v["p"]}
    DEPS = {"p": ["a", "b"], "c": ["p", "a"], "k": ["c", "p"]}
    return m, ["a", "b"], ["p", "c", "k"], [], F, DEPS


GRAPHS = {"pass": g_pass, "raiser": g_raiser, "chain": g_chain, "diamond": g_diamond, "dist": g_dist, "weak": g_weak, "dist2": g_dist2}
M, VALUES, CACHING, TRANS, F, DEPS = GRAPHS[GRAPH]()
ALL = VALUES + CACHING
# other model-level nodes without distributions inputs (constant totals) are left alone
EXTRA = [n for n in M.nodes if n not in ALL and n not in TRANS and not isinstance(M.nodes[n], (TransientCalc,)) and type(M.nodes[n]).__name__ not in ("VarValue", "NoDist", "InputGroup")]


def _closure_up(n):
    out, stack = [], list(DEPS.get(n, []))
    while stack:
        x = stack.pop()
        if x not in out:
            out.append(x)
            stack.extend(DEPS.get(x, []))
    return out


# tables computed once at import (outside the symbolic execution)
UP = {n: tuple(_closure_up(n)) for n in list(DEPS)}
UPC = {n: tuple(p for p in UP[n] if p in CACHING) for n in UP}
DOWN = {src: tuple(n for n in list(DEPS) if src in UP[n]) for src in VALUES}
TOPO = tuple(DEPS)


def closure_up(n):
    """all (transitive) dependencies of n"""
    return UP.get(n, ())


def downstream(src):
    return DOWN[src]


def env_of(m):
    v = {n: m.nodes[n].value for n in ALL}
    for t in TRANS:
        v[t] = F[t](v)
    return v


def scratch(m):
    v = {n: m.nodes[n].value for n in VALUES}
    for n in list(DEPS):          # DEPS is in topological order
        v[n] = F[n](v)
    return v


def inv(m) -> bool:
    """cache invariant: an up-to-date caching node holds f(current inputs) and all its caching ancestors are up to date"""
    v = env_of(m)
    for n in CACHING:
        node = m.nodes[n]
        if not node.outdated:
            if node.value != F[n](v):
                return False
            for p in closure_up(n):
                if p in CACHING and m.nodes[p].outdated:
                    return False
    return True


LOOSE = os.environ.get("LOOSE", "0") == "1"     # states reachable with per-node restores / clear_state: a node may be outdated while its dependants are up to date


def load(vals, stale, flags, auto):
    """construct an ARBITRARY state satisfying the invariant: input values free; a caching node is either
    outdated (then it holds an arbitrary stale value) or up to date (then it holds f(current inputs));
    a node below an outdated caching ancestor is outdated as well.  Returns the effective flags."""
    v = {}
    for n, x in zip(VALUES, vals):
        M.nodes[n]._value = x
        v[n] = x
    eff = {}
    k = 0
    tv = dict(v)                    # from-scratch values (differ from the stored ones only in the loose mode)
    for n in TOPO:                  # topological order
        if n in TRANS:
            v[n] = F[n](v)
            tv[n] = F[n](tv)
            continue
        i = CACHING.index(n)
        out = bool(flags[i]) or (not LOOSE and any(eff[p] for p in UPC[n]))
        eff[n] = out
        tv[n] = F[n](tv)
        val = stale[i] if out else (tv[n] if LOOSE else F[n](v))
        M.nodes[n]._value = val
        M.nodes[n]._outdated = out
        v[n] = val
    for n in EXTRA:
        M.nodes[n]._outdated = False
    M._auto_update = auto
    COUNT.clear()
    return [eff[n] for n in CACHING]


NV, NC = len(VALUES), len(CACHING)


def counts_ok(before_flags, touched) -> bool:
    """a node function runs at most once per operation and only if the node was outdated before or is downstream of the assigned node"""
    for n, f in zip(CACHING, before_flags):
        c = COUNT.get(n, 0)
        if c > 1:
            return False
        if c == 1 and not f and n not in touched:
            return False
    return True


def snapshot():
    return [(n, M.nodes[n].outdated, M.nodes[n].value) for n in CACHING]


def values_match_scratch(names):
    """symbolic conjunction (no branching per comparison)"""
    ref = scratch(M)
    ok = True
    for n in names:
        ok = ok & (M.nodes[n].value == ref[n])
    return ok


def inv_sym(m):
    """the invariant as one symbolic conjunction over the (concrete per path) flags"""
    if LOOSE:                      # value-based invariant: whatever reports up to date holds the from-scratch value
        ref = scratch(m)
        ok = True
        for n in CACHING:
            if not m.nodes[n].outdated:
                ok = ok & (m.nodes[n].value == ref[n])
        return ok
    v = env_of(m)
    ok = True
    for n in CACHING:
        if not m.nodes[n].outdated:
            ok = ok & (m.nodes[n].value == F[n](v))
            for p in UPC[n]:
                if m.nodes[p].outdated:
                    return False
    return ok


TGT = int(os.environ.get("TGT", "-1"))        # concrete target index (splits the work over processes); -1: symbolic
AUTO = int(os.environ.get("AUTO", "-1"))      # concrete auto-update setting (0/1); -1: symbolic


def check_assign(v0: int, v1: int, v2: int, v3: int, s0: int, s1: int, s2: int, s3: int, s4: int, s5: int, f0: bool, f1: bool, f2: bool, f3: bool, f4: bool, f5: bool, auto: bool, tgt: int, newval: int) -> bool:
    """
    pre: 0 <= tgt < NV
    pre: TGT < 0 or tgt == TGT
    pre: AUTO < 0 or auto == (AUTO == 1)
    post: _ == True
    """
    vals, stale, flags = [v0, v1, v2, v3][:NV], [s0, s1, s2, s3, s4, s5][:NC], [f0, f1, f2, f3, f4, f5][:NC]
    if TGT >= 0:
        tgt = TGT
    if AUTO >= 0:
        auto = AUTO == 1
    flags = load(vals, stale, flags, auto)
    name = VALUES[tgt]
    before = snapshot()
    M.nodes[name].value = newval
    down = downstream(name)
    ok = (M.nodes[name].value == newval)
    if auto:
        if any(M.nodes[n].outdated for n in CACHING):
            return False
        ok = ok & values_match_scratch(CACHING)
    else:
        for (n, o, val) in before:
            if n in down:
                if not M.nodes[n].outdated:          # everything downstream of the assigned node is flagged
                    return False
            else:                                    # nothing else is touched
                if M.nodes[n].outdated != o:
                    return False
                ok = ok & (M.nodes[n].value == val)
    return ok & inv_sym(M) & counts_ok(flags, down)


def check_update_all(v0: int, v1: int, v2: int, v3: int, s0: int, s1: int, s2: int, s3: int, s4: int, s5: int, f0: bool, f1: bool, f2: bool, f3: bool, f4: bool, f5: bool, auto: bool) -> bool:
    """
    post: _ == True
    """
    vals, stale, flags = [v0, v1, v2, v3][:NV], [s0, s1, s2, s3, s4, s5][:NC], [f0, f1, f2, f3, f4, f5][:NC]
    flags = load(vals, stale, flags, auto)
    M.update()
    if any(M.nodes[n].outdated for n in CACHING):
        return False
    return values_match_scratch(CACHING) & counts_ok(flags, [])


def check_update_target(v0: int, v1: int, v2: int, v3: int, s0: int, s1: int, s2: int, s3: int, s4: int, s5: int, f0: bool, f1: bool, f2: bool, f3: bool, f4: bool, f5: bool, auto: bool, tgt: int) -> bool:
    """
    pre: 0 <= tgt < NC
    pre: TGT < 0 or tgt == TGT
    post: _ == True
    """
    vals, stale, flags = [v0, v1, v2, v3][:NV], [s0, s1, s2, s3, s4, s5][:NC], [f0, f1, f2, f3, f4, f5][:NC]
    if TGT >= 0:
        tgt = TGT
    flags = load(vals, stale, flags, auto)
    name = CACHING[tgt]
    before = snapshot()
    M.update(name)
    up = closure_up(name)
    if M.nodes[name].outdated or any(M.nodes[p].outdated for p in up if p in CACHING):
        return False
    ok = values_match_scratch([name])
    for (n, o, val) in before:          # nodes that are neither the target nor one of its ancestors are left alone
        if n != name and n not in up:
            if M.nodes[n].outdated != o:
                return False
            ok = ok & (M.nodes[n].value == val)
    return ok & inv_sym(M) & counts_ok(flags, [])


def check_update_transient(v0: int, v1: int, v2: int, v3: int, s0: int, s1: int, s2: int, s3: int, s4: int, s5: int, f0: bool, f1: bool, f2: bool, f3: bool, f4: bool, f5: bool, auto: bool) -> bool:
    """
    Model.update(name) with a TRANSIENT node as the named target (it caches nothing itself): all its caching ancestors are brought up to date
    pre: len(TRANS) >= 1
    post: _ == True
    """
    vals, stale, flags = [v0, v1, v2, v3][:NV], [s0, s1, s2, s3, s4, s5][:NC], [f0, f1, f2, f3, f4, f5][:NC]
    flags = load(vals, stale, flags, auto)
    name = TRANS[0]
    before = snapshot()
    M.update(name)
    up = closure_up(name)
    if any(M.nodes[p].outdated for p in up if p in CACHING):
        return False
    ok = values_match_scratch([p for p in up if p in CACHING])
    for (n, o, val) in before:
        if n != name and n not in up:
            if M.nodes[n].outdated != o:
                return False
            ok = ok & (M.nodes[n].value == val)
    return ok & inv_sym(M) & counts_ok(flags, [])


def check_assign_raises(v0: int, v1: int, newval: int) -> bool:
    """
    graph `raiser`, auto-update on: assigning input a (a node function rejects a == 13 by raising).  Whether or not the assignment raises, every
    node that reports itself up to date afterwards holds the from-scratch value for the CURRENT inputs; without an exception nothing is outdated
    pre: v0 != 13
    post: _ == True
    """
    flags = load([v0, v1], [0, 0, 0], [False, False, False], True)          # from a fully up-to-date state
    raised = False
    try:
        M.nodes["a"].value = newval
    except Exception:
        raised = True
    if raised != (newval == 13):
        return False
    cur = {n: M.nodes[n].value for n in VALUES}
    ref = dict(cur)
    ok = True
    for n in CACHING:
        if not M.nodes[n].outdated:
            if n == "c" and cur["a"] == 13:
                return False                      # c cannot be up to date for the rejected input
        ref[n] = F[n](ref)
    for n in CACHING:
        if not M.nodes[n].outdated:
            ok = ok & (M.nodes[n].value == ref[n])
        elif not raised:
            return False
    return ok


TGT2 = int(os.environ.get("TGT2", "-1"))


def check_update_two(v0: int, v1: int, v2: int, v3: int, s0: int, s1: int, s2: int, s3: int, s4: int, s5: int, f0: bool, f1: bool, f2: bool, f3: bool, f4: bool, f5: bool, auto: bool) -> bool:
    """
    Model.update(a, b) with two targets: both and all their ancestors up to date with from-scratch values, everything else untouched
    post: _ == True
    """
    vals, stale, flags = [v0, v1, v2, v3][:NV], [s0, s1, s2, s3, s4, s5][:NC], [f0, f1, f2, f3, f4, f5][:NC]
    flags = load(vals, stale, flags, auto)
    n1, n2 = CACHING[TGT], CACHING[TGT2]
    before = snapshot()
    M.update(n1, n2)
    up = set(closure_up(n1)) | set(closure_up(n2)) | {n1, n2}
    if any(M.nodes[p].outdated for p in up if p in CACHING):
        return False
    ok = values_match_scratch([n1, n2])
    for (n, o, val) in before:
        if n not in up:
            if M.nodes[n].outdated != o:
                return False
            ok = ok & (M.nodes[n].value == val)
    return ok & inv_sym(M) & counts_ok(flags, [])


def check_toggle_and_state(v0: int, v1: int, v2: int, v3: int, s0: int, s1: int, s2: int, s3: int, s4: int, s5: int, f0: bool, f1: bool, f2: bool, f3: bool, f4: bool, f5: bool, auto: bool) -> bool:
    """
    toggling auto-update and saving / restoring the state change neither values nor flags
    post: _ == True
    """
    vals, stale, flags = [v0, v1, v2, v3][:NV], [s0, s1, s2, s3, s4, s5][:NC], [f0, f1, f2, f3, f4, f5][:NC]
    flags = load(vals, stale, flags, auto)
    before = snapshot()
    M.auto_update = not auto
    if M.auto_update == auto:
        return False
    s = M.state
    M.state = s
    ok = True
    for (n, o, val), (n2, o2, val2) in zip(before, snapshot()):
        if o != o2:
            return False
        ok = ok & (val == val2)
    return ok & inv_sym(M) & (not COUNT)


def check_restore(v0: int, v1: int, v2: int, v3: int, s0: int, s1: int, s2: int, s3: int, s4: int, s5: int, f0: bool, f1: bool, f2: bool, f3: bool, f4: bool, f5: bool, w0: int, w1: int, w2: int, w3: int, t0: int, t1: int, t2: int, t3: int, t4: int, t5: int, g0: bool, g1: bool, g2: bool, g3: bool, g4: bool, g5: bool, auto: bool) -> bool:
    """
    restoring a previously saved state (itself satisfying the invariant) over an arbitrary current state gives exactly the saved state
    post: _ == True
    """
    vals, stale, flags = [v0, v1, v2, v3][:NV], [s0, s1, s2, s3, s4, s5][:NC], [f0, f1, f2, f3, f4, f5][:NC]
    vals2, stale2, flags2 = [w0, w1, w2, w3][:NV], [t0, t1, t2, t3, t4, t5][:NC], [g0, g1, g2, g3, g4, g5][:NC]
    load(vals2, stale2, flags2, auto)
    saved = M.state
    want = [(n, M.nodes[n].outdated, M.nodes[n].value) for n in ALL]
    load(vals, stale, flags, auto)
    M.state = saved
    ok = True
    for (n, o, val) in want:
        if M.nodes[n].outdated != o:
            return False
        ok = ok & (M.nodes[n].value == val)
    return ok & inv_sym(M) & (not COUNT)
