"""Family of model programs (built through liesel's public API) shared by C02, C03, C09, C13."""
import jax
import jax.numpy as jnp
import numpy as np


def _tf():
    import tensorflow_probability.substrates.jax.bijectors as tfb
    import tensorflow_probability.substrates.jax.distributions as tfd
    return tfd, tfb


X3 = np.array([[1.0, 0.5], [1.0, -1.0], [1.0, 2.0]], dtype=np.float32)
Y3 = np.array([0.3, -0.2, 1.0], dtype=np.float32)


def regression(per_obs=True, transform=True):
    import liesel.model as lsl
    tfd, tfb = _tf()
    sigma = lsl.param(1.5, lsl.Dist(tfd.InverseGamma, concentration=lsl.Var(2.0, name="ig_a"), scale=lsl.Var(0.5, name="ig_b")), name="sigma")
    beta = lsl.param(jnp.zeros(2), lsl.Dist(tfd.Normal, loc=lsl.Var(0.0, name="b_loc"), scale=lsl.Var(10.0, name="b_scale")), name="beta")
    X = lsl.obs(jnp.asarray(X3), name="X")
    mu = lsl.Var(lsl.Calc(jnp.dot, X, beta), name="mu")
    d = lsl.Dist(tfd.Normal, loc=mu, scale=sigma)
    d.per_obs = per_obs
    y = lsl.obs(jnp.asarray(Y3), d, name="y")
    if transform:
        sigma.transform(tfb.Exp())
    return lsl.GraphBuilder().add(y).build_model()


def weak_hierarchy():
    import liesel.model as lsl
    tfd, tfb = _tf()
    # m0: positional-only parameters; mu: mixed positional / keyword parameters (both ways of passing distribution inputs are in the family)
    m0 = lsl.param(0.1, lsl.Dist(tfd.Normal, lsl.Var(0.0, name="m0_loc"), lsl.Var(3.0, name="m0_scale")), name="m0")
    ls = lsl.param(0.2, lsl.Dist(tfd.Normal, loc=0.0, scale=1.0), name="ls")
    sd = lsl.Var(lsl.Calc(jnp.exp, ls), name="sd")            # weak intermediate variable
    mu = lsl.param(jnp.zeros(2), lsl.Dist(tfd.Normal, m0, scale=sd), name="mu")
    y = lsl.obs(jnp.array([0.4, -0.7]), lsl.Dist(tfd.Normal, loc=mu, scale=lsl.Var(0.8, name="y_scale")), name="y")
    return lsl.GraphBuilder().add(y).build_model()


def weak_with_dist():
    """a weak variable (its value is computed) that carries a distribution: the distribution is evaluated at (`Dist.at`) a calculation"""
    import liesel.model as lsl
    tfd, tfb = _tf()
    mu = lsl.param(jnp.array([0.3, -0.2]), lsl.Dist(tfd.Normal, loc=0.0, scale=lsl.Var(2.0, name="mu_scale")), name="mu")
    contrast = lsl.Var(lsl.Calc(lambda m: m[0] - 2.0 * m[1], mu), lsl.Dist(tfd.Normal, loc=lsl.Var(0.5, name="c_loc"), scale=0.7), name="contrast")
    contrast.parameter = True
    y = lsl.obs(jnp.array([0.4, -0.7]), lsl.Dist(tfd.Normal, loc=mu, scale=1.0), name="y")
    return lsl.GraphBuilder().add(y, contrast).build_model()


def dist_without_var():
    """a distribution node that belongs to no variable: part of log_prob, of neither log_lik nor log_prior"""
    import liesel.model as lsl
    tfd, tfb = _tf()
    mu = lsl.param(0.3, lsl.Dist(tfd.Normal, loc=0.0, scale=lsl.Var(2.0, name="mu_scale")), name="mu")
    y = lsl.obs(jnp.array([0.4, -0.7]), lsl.Dist(tfd.Normal, loc=mu, scale=1.0), name="y")
    z = lsl.Value(jnp.array(0.25), _name="z")
    extra = lsl.Dist(tfd.Normal, loc=mu, scale=lsl.Var(0.5, name="z_scale"), _name="z_dist")
    extra.at = z
    return lsl.GraphBuilder().add(y, extra).build_model()


def neither_flag():
    """a distributed variable that is neither observed nor parameter"""
    import liesel.model as lsl
    tfd, tfb = _tf()
    mu = lsl.param(0.3, lsl.Dist(tfd.Normal, loc=0.0, scale=2.0), name="mu")
    lat = lsl.Var(0.1, lsl.Dist(tfd.Normal, loc=mu, scale=lsl.Var(1.5, name="lat_scale")), name="lat")
    y = lsl.obs(jnp.array([0.4, -0.7]), lsl.Dist(tfd.Normal, loc=lat, scale=1.0), name="y")
    return lsl.GraphBuilder().add(y).build_model()


def K_rw1(n=3):
    D = np.diff(np.eye(n), axis=0)
    return (D.T @ D).astype(np.float32)


def mvnd_prior():
    import liesel.model as lsl
    from liesel.distributions import MultivariateNormalDegenerate as MVND
    tfd, tfb = _tf()
    tau2 = lsl.param(1.3, lsl.Dist(tfd.InverseGamma, concentration=lsl.Var(2.0, name="a"), scale=lsl.Var(0.5, name="b")), name="tau2")
    K = lsl.Var(jnp.asarray(K_rw1(3)), name="K")
    beta = lsl.param(jnp.array([0.1, -0.2, 0.3]), lsl.Dist(MVND.from_penalty, loc=0.0, var=tau2, pen=K, rank=lsl.Var(2, name="rank")), name="beta")
    Xd = lsl.obs(jnp.eye(3), name="Xd")
    eta = lsl.Var(lsl.Calc(jnp.dot, Xd, beta), name="eta")
    y = lsl.obs(jnp.asarray(Y3), lsl.Dist(tfd.Normal, loc=eta, scale=lsl.Var(1.0, name="y_scale")), name="y")
    return lsl.GraphBuilder().add(y).build_model()


def distreg():
    from liesel.model.distreg import DistRegBuilder
    tfd, tfb = _tf()
    rng = np.random.default_rng(0)
    Xs = rng.normal(size=(4, 3)).astype(np.float32)
    yv = rng.normal(size=4).astype(np.float32)
    b = DistRegBuilder()
    b.add_response(yv, tfd.Normal)
    b.add_predictor("loc", tfb.Identity)
    b.add_predictor("scale", tfb.Exp)
    b.add_np_smooth(Xs, K_rw1(3), a=2.0, b=0.5, predictor="loc", name="s1")
    b.add_p_smooth(np.ones((4, 1), np.float32), m=0.0, s=10.0, predictor="scale", name="p1")
    return b.build_model()


def both_flags():
    """a variable flagged observed AND parameter: its log-density belongs to both the log-likelihood and the log-prior (the flags are independent)"""
    import liesel.model as lsl
    tfd, tfb = _tf()
    mu = lsl.param(0.4, lsl.Dist(tfd.Normal, loc=0.0, scale=lsl.Var(2.0, name="mu_scale")), name="mu")
    z = lsl.obs(jnp.array([0.3, -0.6]), lsl.Dist(tfd.Normal, loc=mu, scale=lsl.Var(1.5, name="z_scale")), name="z")
    z.parameter = True
    y = lsl.obs(jnp.array([0.1, 0.9]), lsl.Dist(tfd.Normal, loc=z, scale=lsl.Var(0.7, name="y_scale")), name="y")
    return lsl.GraphBuilder().add(y).build_model()


def user_totals():
    """user-supplied replacement nodes for all three totals"""
    import liesel.model as lsl
    tfd, tfb = _tf()
    mu = lsl.param(0.5, lsl.Dist(tfd.Normal, loc=0.0, scale=lsl.Var(1.0, name="mu_scale")), name="mu")
    y = lsl.obs(jnp.array([0.3, -0.2]), lsl.Dist(tfd.Normal, loc=mu, scale=lsl.Var(1.0, name="y_scale")), name="y")
    gb = lsl.GraphBuilder().add(y)
    gb.log_lik_node = lsl.Calc(lambda a: 2.0 * jnp.sum(a) + 1.0, y.dist_node, _name="my_lik")
    gb.log_prior_node = lsl.Calc(lambda a: jnp.sum(a) - 3.0, mu.dist_node, _name="my_prior")
    gb.log_prob_node = lsl.Calc(lambda a, b: jnp.sum(a) + 0.5 * jnp.sum(b) + 7.0, y.dist_node, mu.dist_node, _name="my_prob")
    return gb.build_model()


def user_totals_vector():
    """user-supplied replacement nodes whose values are not scalars (a pointwise weighted log-likelihood, a per-coefficient prior)"""
    import liesel.model as lsl
    tfd, tfb = _tf()
    mu = lsl.param(jnp.array([0.5, -0.1]), lsl.Dist(tfd.Normal, loc=0.0, scale=lsl.Var(1.0, name="mu_scale")), name="mu")
    y = lsl.obs(jnp.array([0.3, -0.2]), lsl.Dist(tfd.Normal, loc=mu, scale=lsl.Var(1.0, name="y_scale")), name="y")
    gb = lsl.GraphBuilder().add(y)
    gb.log_lik_node = lsl.Calc(lambda a: jnp.array([2.0, 0.5]) * a, y.dist_node, _name="my_lik")
    gb.log_prior_node = lsl.Calc(lambda a: a - 3.0, mu.dist_node, _name="my_prior")
    return gb.build_model()


def auto_transform():
    import liesel.model as lsl
    tfd, tfb = _tf()
    tau = lsl.param(1.2, lsl.Dist(tfd.InverseGamma, concentration=lsl.Var(2.0, name="a"), scale=lsl.Var(0.5, name="b")), name="tau")
    tau.auto_transform = True
    mu = lsl.param(0.3, lsl.Dist(tfd.Normal, loc=0.0, scale=lsl.Var(2.0, name="mu_scale")), name="mu")
    y = lsl.obs(jnp.array([0.4, -0.7]), lsl.Dist(tfd.Normal, loc=mu, scale=tau), name="y")
    return lsl.GraphBuilder().add(y).build_model()


def pop_modify_rebuild():
    """nodes evaluated in a first model, popped, a strong value changed outside any model, rebuilt"""
    import liesel.model as lsl
    m = regression(transform=False)
    m.vars["beta"].value = jnp.array([0.2, 0.1])        # the inputs are assigned (and everything re-evaluated) while they belong to the first model
    m.vars["sigma"].value = jnp.array(1.1)
    nodes, vars_ = m.pop_nodes_and_vars()
    vars_["beta"].value = jnp.array([0.7, -0.4])
    vars_["sigma"].value = jnp.array(0.9)
    return lsl.GraphBuilder().add(*nodes.values(), *vars_.values()).build_model()


def mvn_batch():
    """event-shaped (multivariate) and batch-shaped distributions, matrix-valued observations"""
    import liesel.model as lsl
    tfd, tfb = _tf()
    loc = lsl.param(jnp.array([0.1, -0.3]), lsl.Dist(tfd.MultivariateNormalDiag, loc=lsl.Var(jnp.zeros(2), name="loc_mean"), scale_diag=lsl.Var(jnp.array([2.0, 3.0]), name="loc_sd")), name="loc")
    sd = lsl.param(jnp.array([0.8, 1.2]), lsl.Dist(tfd.Gamma, concentration=lsl.Var(2.0, name="sd_a"), rate=lsl.Var(jnp.array([1.0, 1.5]), name="sd_b")), name="sd")
    y = lsl.obs(jnp.array([[0.3, -0.2], [1.0, 0.4], [-0.5, 0.1]]), lsl.Dist(tfd.MultivariateNormalDiag, loc=loc, scale_diag=sd), name="y")
    z = lsl.obs(jnp.array([[0.3, -0.2], [1.0, 0.4]]), lsl.Dist(tfd.Normal, loc=loc, scale=sd), name="z")      # batch of 2, sample of 2
    return lsl.GraphBuilder().add(y, z).build_model()


FAMILY = {
    "regression(transformed scale)": lambda: regression(True, True),
    "regression(per_obs=False)": lambda: regression(False, True),
    "weak-hierarchy": weak_hierarchy,
    "weak variable with a distribution": weak_with_dist,
    "dist-without-var": dist_without_var,
    "neither-observed-nor-parameter": neither_flag,
    "observed-and-parameter": both_flags,
    "degenerate-mvn-prior": mvnd_prior,
    "DistRegBuilder(np+p smooth)": distreg,
    "user-supplied totals": user_totals,
    "user-supplied totals (vector-valued)": user_totals_vector,
    "auto_transform": auto_transform,
    "pop-modify-rebuild": pop_modify_rebuild,
    "multivariate+batch shapes": mvn_batch,
}
CONCRETE_NAMES = ("K", "rank", "X", "Xd")       # structural inputs kept concrete (penalties, ranks, design matrices)


def strong_names(model):
    """names of the value nodes without inputs: everything else is derived from them"""
    from liesel.model.nodes import Calc, Dist, Value
    out = []
    for n, node in model.nodes.items():
        if isinstance(node, Value) and not isinstance(node, (Calc, Dist)) and not n.startswith("_model"):
            out.append(n)
    return out


def is_concrete_name(n):
    base = n[:-6] if n.endswith("_value") else n
    return base in CONCRETE_NAMES or base.endswith(("_K", "_X", "_rank")) or (base[0] == "n" and base[1:].isdigit())


def effective(out, node):
    """value of `node` in a dict of (traced) node values, looking through transient nodes"""
    from liesel.model.nodes import TransientNode
    if not isinstance(node, TransientNode):
        return out[node.name]
    from liesel.model.nodes import ArgGroup, InputGroup
    args = [effective(out, i) for i in node.inputs]
    kwargs = {k: effective(out, i) for k, i in node.kwinputs.items()}
    if isinstance(node, InputGroup):
        return ArgGroup(args, kwargs)
    return node.function(*args, **kwargs)


def reference_log_probs(model, out):
    """log-density of every distribution node computed by calling the wrapped (TFP) distribution
    directly on the values in `out` -- not through liesel's Dist.update"""
    ref = {}
    for n, node in model.nodes.items():
        from liesel.model.nodes import Dist
        if isinstance(node, Dist) and node.at is not None and type(node).__name__ != "NoDist":
            args = [effective(out, i) for i in node.inputs]
            kwargs = {k: effective(out, i) for k, i in node.kwinputs.items()}
            ref[n] = node.distribution(*args, **kwargs).log_prob(effective(out, node.at))
    return ref


def values_of(state):
    return {k: v.value for k, v in state.items() if v.value is not None}
