"""Common protocol of all checks: encodings of traced functions, obligations, vacuity
twins, replay of solver models against the real code, evidence, findings, exit codes."""
from __future__ import annotations

import json
import os
import sys
import time
import traceback

import jax
import jax.numpy as jnp
import numpy as np
import z3

from . import smt, stubs
from .jx2smt import Interp, KeyTerm, KeyWord, Poison, NonFinite, Unsupported, is_sym, root_key, sym_array
from .zeval import NoValue, ZEval, model_value

VERIF = os.path.dirname(os.path.dirname(os.path.abspath(__file__)))
REPO = os.environ.get("VERIF_REPO", "/repo")


class Inconclusive(Exception):
    pass


# --------------------------------------------------------------------------- encodings
def _named_leaves(obj, prefix):
    """(name, leaf) pairs in tree_flatten order, with dataclass field names where liesel flattens `__dict__`"""
    import dataclasses
    if isinstance(obj, dict):
        out = []
        for k in sorted(obj):
            out += _named_leaves(obj[k], f"{prefix}_{k}")
        return out
    if isinstance(obj, (list, tuple)) and not hasattr(obj, "_fields"):
        out = []
        for i, v in enumerate(obj):
            out += _named_leaves(v, f"{prefix}_{i}")
        return out
    if hasattr(obj, "_fields"):       # named tuple
        out = []
        for k in obj._fields:
            out += _named_leaves(getattr(obj, k), f"{prefix}_{k}")
        return out
    if dataclasses.is_dataclass(obj) and not isinstance(obj, type):
        out = []
        for k in sorted(vars(obj)):
            out += _named_leaves(vars(obj)[k], f"{prefix}_{k}")
        return out
    if obj is None:
        return []
    return [(prefix, obj)]


def symlike(example, prefix, sort=None, positive=False):
    """pytree of object arrays with one z3 constant per float scalar of `example`;
    integer / bool leaves stay concrete"""
    paths = jax.tree_util.tree_flatten_with_path(example)[0]
    tree = jax.tree_util.tree_structure(example)
    named = None
    try:
        nl = _named_leaves(example, prefix)
        if len(nl) == len(paths) and all(a is b for (_, a), (_, b) in zip(nl, paths)):
            named = [n for n, _ in nl]
    except Exception:
        named = None
    leaves = []
    for k, (p, a) in enumerate(paths):
        a = np.asarray(a)
        if named is not None:
            nm = "".join(ch if ch.isalnum() else "_" for ch in named[k]).strip("_")
        else:
            nm = prefix + "".join(ch if ch.isalnum() else "_" for ch in jax.tree_util.keystr(p)).strip("_")
        if a.dtype.kind in "iub":
            leaves.append(a)
        else:
            leaves.append(sym_array(nm, a.shape, sort))
    return jax.tree_util.tree_unflatten(tree, leaves)


def consts_of(tree):
    out = []
    for leaf in jax.tree_util.tree_leaves(tree):
        if is_sym(leaf):
            for c in leaf.reshape(-1):
                if z3.is_expr(c) and z3.is_const(c) and c.decl().kind() == z3.Z3_OP_UNINTERPRETED:
                    out.append(c)
    return out


def cells(x):
    return list(np.asarray(x, dtype=object).reshape(-1))


def eqs(a, b):
    a, b = np.asarray(a, dtype=object), np.asarray(b, dtype=object)
    if a.shape != b.shape:
        a, b = np.broadcast_arrays(a, b)
    return [x == y for x, y in zip(a.reshape(-1), b.reshape(-1))]


def all_eq(a, b):
    return z3.And(*eqs(a, b)) if len(eqs(a, b)) else z3.BoolVal(True)


def eval_keyterm(term, roots):
    kind = term[0]
    if kind == "root":
        return roots[term[1]] if len(term) == 2 else roots[term[1:]]
    if kind == "split":
        parent = eval_keyterm(term[1], roots)
        ks = jax.random.split(parent, tuple(term[2]))
        return ks[tuple(term[3])]
    if kind == "fold_in":
        return jax.random.fold_in(eval_keyterm(term[1], roots), int(term[2]))
    if kind == "seed":
        return jax.random.PRNGKey(int(term[1]))
    raise NoValue(f"key term {term}")


class View:
    """what a goal builder sees: inputs, outputs, stub call records, draws, UF accessors"""

    def __init__(self, enc, out, calls, replay=False):
        self.enc, self.inp, self.out, self.calls, self.replay = enc, enc.sym_args, out, calls, replay
        self.I = enc.I
        self.draws = enc.I.draws

    def uf(self, name, arity=1):
        F = self.I.F
        return self.I.fn(name, *([F] * (arity + 1)))

    def exp(self, x): return self.uf("exp")(x)
    def log(self, x): return self.uf("log")(x)
    def sqrt(self, x): return self.uf("sqrt")(x)
    def c(self, x): return self.I.fconst(x)

    def call(self, name, k=0):
        lst = [c for c in self.calls if c[0] == name]
        return lst[k][1], lst[k][2]

    def ncalls(self, name):
        return sum(1 for c in self.calls if c[0] == name)


class Enc:
    """One traced function of the real code, interpreted over z3 terms."""

    def __init__(self, name, fn, example_args, sym_args, mode="real", interp=None, key_roots=None, domain=None, **ikw):
        self.name, self.fn, self.example_args, self.sym_args = name, fn, example_args, sym_args
        t0 = time.time()
        self.jaxpr = jax.make_jaxpr(fn)(*example_args)
        self.out_shape = jax.eval_shape(fn, *example_args)
        self.I = interp if interp is not None else Interp(mode, **ikw)
        flat = jax.tree_util.tree_leaves(sym_args)
        flat = [a if is_sym(a) else np.asarray(a) for a in flat]
        outs = self.I.eval_closed(self.jaxpr, *flat)
        self.out = jax.tree_util.tree_unflatten(jax.tree_util.tree_structure(self.out_shape), [self.I.lift(o) if not is_sym(o) else o for o in outs])
        self.n_eqns = count_eqns(self.jaxpr.jaxpr)
        self.encode_s = time.time() - t0
        self.key_roots = key_roots or {}
        self.domain = domain or {}
        self.view = View(self, self.out, self.I.calls)

    # ---- concrete side
    def concrete_args(self, env, rng=None):
        """pytree of concrete arrays: z3 constants take their value from env (else the example
        value, or a seeded random value when rng is given); key leaves take a real key"""
        ex_leaves = jax.tree_util.tree_leaves(self.example_args)
        sym_leaves = jax.tree_util.tree_leaves(self.sym_args)
        tree = jax.tree_util.tree_structure(self.example_args)
        out = []
        for ex, sy in zip(ex_leaves, sym_leaves):
            ex = np.asarray(ex)
            if not is_sym(sy):
                out.append(jnp.asarray(ex))
                continue
            flat = sy.reshape(-1)
            if len(flat) and isinstance(flat[0], KeyWord):
                kt = flat[0].key.term
                out.append(jnp.asarray(self.key_roots[kt[1] if len(kt) == 2 else kt[1:]]))
                continue
            vals = np.array(ex, dtype=ex.dtype).reshape(-1).copy() if ex.size else np.zeros(0, ex.dtype)
            for i, c in enumerate(flat):
                if z3.is_expr(c) and z3.is_const(c) and c.decl().kind() == z3.Z3_OP_UNINTERPRETED:
                    nm = c.decl().name()
                    if nm in env and env[nm] is not None:
                        vals[i] = env[nm]
                    elif rng is not None and nm in self.domain:
                        lo, hi = self.domain[nm]
                        vals[i] = rng.integers(lo, hi + 1) if z3.is_int(c) else rng.uniform(lo, hi)
                    elif rng is not None and z3.is_real(c):
                        vals[i] = rng.normal()
                    env[nm] = vals[i].item() if hasattr(vals[i], "item") else vals[i]
            out.append(jnp.asarray(vals.reshape(ex.shape), dtype=ex.dtype))
        return jax.tree_util.tree_unflatten(tree, out)

    def run_real(self, cargs):
        """run the real function eagerly (stubs in spy mode); returns (outputs, spy log)"""
        with stubs.spy() as log:
            out = self.fn(*cargs)
        return out, list(log)

    def replay_view(self, env, cargs, tag="r"):
        """Run the real code on `cargs`; return a View whose outputs / stub arguments are fresh
        named constants bound (in env) to what the real code produced."""
        out, log = self.run_real(cargs)
        oleaves = jax.tree_util.tree_leaves(out)
        named = []
        for k, o in enumerate(oleaves):
            o = np.asarray(o)
            if o.dtype.kind == "b":
                sort = z3.BoolSort()
            elif o.dtype.kind in "iu":
                sort = z3.IntSort()
            else:
                sort = self.I.F
            if o.dtype.kind == "u" and o.shape[-1:] == (2,) and o.dtype == np.uint32:
                arr = np.empty(o.shape, dtype=object)
                for i in np.ndindex(*o.shape):
                    arr[i] = z3.IntVal(int(o[i]))
                named.append(arr)
                continue
            arr = sym_array(f"{tag}o{self.name}{k}", o.shape, sort)
            for i in np.ndindex(*o.shape):
                env[arr[i].decl().name()] = _py(o[i])
            named.append(arr)
        rout = jax.tree_util.tree_unflatten(jax.tree_util.tree_structure(out), named)
        # stub calls: solve-mode output constants keep their names; arguments become named constants
        calls = []
        counts = {}
        for (nm, a, o) in log:
            k = counts.get(nm, 0)
            counts[nm] = k + 1
            sym_call = [c for c in self.I.calls if c[0] == nm]
            if k >= len(sym_call):
                raise Inconclusive(f"real run made more calls to {nm} than the trace")
            _, sargs, souts = sym_call[k]
            rargs = []
            for j, x in enumerate(a):
                arr = sym_array(f"{tag}a{self.name}{nm}{k}_{j}", x.shape, self.I.F if x.dtype.kind == "f" else z3.IntSort())
                for i in np.ndindex(*x.shape):
                    env[arr[i].decl().name()] = _py(x[i])
                rargs.append(arr)
            for so, x in zip(souts, o):
                for i in np.ndindex(*x.shape):
                    env[so[i].decl().name()] = _py(x[i])
            calls.append((nm, rargs, souts))
        # draws: evaluate the key terms on the real keys
        for d in self.I.draws:
            self._bind_draw(d, env)
        return View(self, rout, calls, replay=True)

    def _bind_draw(self, d, env):
        if d["kind"] in ("shuffle", "bits"):
            return
        keys = d["keys"]
        out = d["out"]
        shape = d["shape"]
        try:
            rk = [eval_keyterm(k.term, self.key_roots) for k in keys]
        except (NoValue, KeyError):
            return
        if len(rk) == 1:
            vals = self._draw_real(d, rk[0], shape, env, 0)
        else:
            n = len(rk)
            rest = shape[-(len(shape) - 1):] if len(shape) > 1 else ()
            # batched keys: leading dims enumerate the keys
            per = int(np.prod(shape, dtype=int)) // n
            vals = np.concatenate([np.asarray(self._draw_real(d, k, (per,), env, j)).reshape(-1) for j, k in enumerate(rk)]).reshape(shape)
        vals = np.asarray(vals)
        for i in np.ndindex(*shape):
            c = out[i]
            if z3.is_expr(c):
                env[c.decl().name()] = float(vals[i])

    def _draw_real(self, d, key, shape, env, j):
        if d["kind"] == "normal":
            return jax.random.normal(key, shape)
        if d["kind"] == "uniform":
            return jax.random.uniform(key, shape)
        if d["kind"] == "gamma":
            ze = ZEval(env)
            a = np.array([float(ze(x)) for x in d["extra"]], dtype=np.float32)
            a = a.reshape(shape) if a.size == int(np.prod(shape, dtype=int)) else a[j]
            return jax.random.gamma(key, a)
        raise NoValue(d["kind"])

    def validate(self, rng, npoints=2, tol=2e-3, bounds=None):
        """translator validation: encoded outputs evaluated at concrete points must agree with
        the real function.  Returns the number of points compared; raises Inconclusive when the
        encoding disagrees with the real code at two or more points (a single disagreeing point is
        re-tried at two further points: near-singular random points are not translator bugs)."""
        done, bad = 0, []
        budget = npoints
        while budget > 0:
            budget -= 1
            msg = self._validate_point(rng, tol, bounds)
            done += 1
            if msg:
                bad.append(msg)
                if len(bad) == 1:
                    budget += 2
            if len(bad) >= 2:
                raise Inconclusive(bad[0])
        return done

    def _validate_point(self, rng, tol, bounds):
        env = {}
        if bounds:
            for nm, (lo, hi) in bounds.items():
                env[nm] = float(rng.uniform(lo, hi))
        cargs = self.concrete_args(env, rng=rng)
        V = self.replay_view(env, cargs, tag="v")
        ze = ZEval(env, tol=tol)
        for real_leaf, sym_leaf in zip(jax.tree_util.tree_leaves(V.out), jax.tree_util.tree_leaves(self.out)):
            for rc, sc in zip(cells(real_leaf), cells(sym_leaf)):
                if not z3.is_expr(sc) or not z3.is_expr(rc):
                    continue
                try:
                    rv, sv = ze(rc), ze(sc)
                except NoValue:
                    continue
                if isinstance(rv, float) and (np.isnan(rv) or np.isinf(rv)):
                    continue
                if isinstance(sv, float) and (np.isnan(sv) or np.isinf(sv)):
                    continue
                if not ze.close(rv, sv):
                    return f"translator validation mismatch in {self.name}: real {rv} vs encoded {sv} for {str(sc)[:120]}"
        return None


def _py(x):
    x = np.asarray(x)
    if x.dtype.kind == "b":
        return bool(x)
    if x.dtype.kind in "iu":
        return int(x)
    return float(x)


def count_eqns(jaxpr):
    n = 0
    for e in jaxpr.eqns:
        n += 1
        for v in e.params.values():
            vs = v if isinstance(v, (list, tuple)) else [v]
            for x in vs:
                if hasattr(x, "jaxpr") and hasattr(x.jaxpr, "eqns"):
                    n += count_eqns(x.jaxpr)
                elif hasattr(x, "eqns"):
                    n += count_eqns(x)
    return n


# --------------------------------------------------------------------------- obligations
class Obligation:
    """goal must follow from hyps for every value of the symbolic inputs.

    build(views) -> (hyps, goal): called with the solve-mode views and, when the solver
    returns a model, again with replay views (outputs bound to what the real code produced).
    """

    def __init__(self, name, encs, build, schemas=("pos", "inv", "unit"), tactic="auto", timeout_s=120,
                 twin=True, signature=None, replay=None, bounds=None, case=None, tol=1e-3, group=None, expand_logs=False):
        self.name, self.encs, self.build = name, list(encs), build
        self.schemas, self.tactic, self.timeout_s, self.twin = schemas, tactic, timeout_s, twin
        self.signature = signature or name
        self.custom_replay = replay
        self.bounds = bounds or {}
        self.case = case
        self.tol = tol
        self.group = group
        self.expand_logs = expand_logs


class Result:
    def __init__(self, ob, verdict, seconds, info=None, detail=None, trivial=False, twin=None, replay=None):
        self.ob, self.verdict, self.seconds, self.info, self.detail = ob, verdict, seconds, info or {}, detail
        self.trivial, self.twin, self.replay = trivial, twin, replay


def side_of(encs):
    s = []
    for e in encs:
        s += list(e.I.side)
    return s


def build_query(ob):
    views = [e.view for e in ob.encs]
    built = ob.build(views[0] if len(views) == 1 else views)
    hyps, goal = built[0], built[1]
    hyps = list(hyps) + side_of(ob.encs)
    if ob.expand_logs:
        ex, side = smt.expand_logs(hyps + [goal])
        hyps, goal = ex[:-1], ex[-1]
        # validity of the rewriting: every argument that was split must be positive under the hypotheses
        for c in side:
            sc = z3.simplify(c)
            if z3.is_true(sc):
                continue
            v, _, _, _ = smt.check_sat(hyps + [z3.Not(c)], 20, "auto", ob.schemas)
            if v != "unsat":
                raise Inconclusive(f"log expansion needs {c} which does not follow from the hypotheses ({v})")
    if len(built) > 2 and built[2]:
        # generalisation: identical (hash-consed) sub-terms are replaced by fresh constants of the
        # same sort -- sound for validity: what holds for an arbitrary value holds for the term
        sub = [(t, z3.FreshConst(t.sort(), "abs")) for t in built[2] if z3.is_expr(t) and not z3.is_const(t)]
        if sub:
            hyps = [z3.substitute(h, *sub) for h in hyps]
            goal = z3.substitute(goal, *sub)
    if ob.case:
        hyps = [z3.substitute(h, *ob.case) for h in hyps]
        goal = z3.substitute(goal, *ob.case)
    return hyps, goal


def solve_obligation(ob, rng, pre=None):
    """pre: optional (verdict, seconds, twin_verdict) obtained by an external solver process"""
    hyps, goal = build_query(ob)
    gs = z3.simplify(goal)
    if z3.is_true(gs):
        # closed by z3's simplifier (polynomial normalisation, ite/bool rewriting); it only counts as
        # trivial when every atom of the goal was already a syntactic identity `t == t`
        return Result(ob, "unsat", 0.0, {"tactic": "z3-simplifier"}, trivial=syntactic_identity(goal), detail="simplifier")
    if pre is not None and pre[0] == "unsat":
        res = Result(ob, "unsat", pre[1], pre[3])
        res.twin = pre[2]
        return res
    pins = []
    if pre is not None and pre[0] == "sat" and len(pre) > 4 and pre[4]:
        # the external solver already found a model: pin the input constants to it so that the in-process solve is an evaluation
        cs = []
        for e in ob.encs:
            cs += consts_of(e.sym_args)
            for d in e.I.draws:
                cs += [c for c in cells(d["out"]) if z3.is_expr(c) and z3.is_const(c)]
        pins = smt.pins_from_model_text(pre[4], cs)
    verdict, model, secs, info = smt.check_sat(hyps + [z3.Not(goal)] + pins, ob.timeout_s, ob.tactic, ob.schemas)
    if pins and verdict != "sat":
        verdict, model, secs, info = smt.check_sat(hyps + [z3.Not(goal)], ob.timeout_s, ob.tactic, ob.schemas)
    res = Result(ob, verdict, secs + (pre[1] if pre else 0.0), info)
    if verdict == "unsat" and ob.twin:
        tv, _, tsecs, _ = smt.check_sat(hyps, min(ob.timeout_s, 60), ob.tactic, ob.schemas)
        res.twin = tv
        res.seconds += tsecs
    if verdict == "sat":
        res.replay = replay_model(ob, model, rng, hyps, goal)
    return res


def syntactic_identity(goal):
    """True iff the goal is a boolean combination of atoms that are literally `t == t` / true"""
    stack = [goal]
    while stack:
        g = stack.pop()
        if z3.is_true(g):
            continue
        if z3.is_app(g) and g.decl().kind() in (z3.Z3_OP_AND, z3.Z3_OP_OR):
            stack.extend(g.children())
        elif z3.is_app(g) and g.decl().kind() == z3.Z3_OP_IMPLIES:
            stack.append(g.arg(1))
        elif z3.is_app(g) and g.decl().kind() == z3.Z3_OP_EQ and g.arg(0).eq(g.arg(1)):
            continue
        else:
            return False
    return True


def solve_parallel(obligations, workers=None):
    """Discharge obligations with one z3 process per query (and per vacuity twin) in parallel.
    Returns {index: (verdict, seconds, twin_verdict, info)} for those decided `unsat`
    externally; everything else is re-solved in process (to obtain a model for replay)."""
    import concurrent.futures as cf
    import shutil
    import tempfile
    workers = workers or max(1, min(14, (os.cpu_count() or 2) - 2))
    tmp = tempfile.mkdtemp(prefix="vfq_")
    jobs = {}
    try:
        for k, ob in enumerate(obligations):
            try:
                hyps, goal = build_query(ob)
            except Exception:
                continue
            if z3.is_true(z3.simplify(goal)):
                continue
            a, tac, info = smt.prepare(hyps + [z3.Not(goal)], ob.tactic, ob.schemas)
            smt.export_query(a, tac, os.path.join(tmp, f"q{k}.smt2"))
            jobs[(k, "goal")] = (os.path.join(tmp, f"q{k}.smt2"), ob.timeout_s, info)
            if ob.twin:
                a2, tac2, _ = smt.prepare(hyps, ob.tactic, ob.schemas)
                smt.export_query(a2, tac2, os.path.join(tmp, f"t{k}.smt2"))
                jobs[(k, "twin")] = (os.path.join(tmp, f"t{k}.smt2"), min(ob.timeout_s, 60), {})
        out = {}
        second = os.environ.get("VERIF_TIER") == "thorough" and os.path.exists(smt.Z3OLD)
        with cf.ThreadPoolExecutor(max_workers=workers) as ex:
            futs = {ex.submit(smt.run_external, path, to): key for key, (path, to, _) in jobs.items()}
            if second:        # second solver (z3 4.8.12) on every goal query: verdicts are diffed, `unknown` is ignored
                for key, (path, to, _) in jobs.items():
                    if key[1] == "goal":
                        futs[ex.submit(smt.run_external, path, min(to, 60), smt.Z3OLD)] = (key[0], "goal2")
            for f in cf.as_completed(futs):
                out[futs[f]] = f.result()
        pre = {}
        for k, ob in enumerate(obligations):
            if (k, "goal") not in out:
                continue
            v, secs, msg = out[(k, "goal")]
            info = dict(jobs[(k, "goal")][2])
            info["external"] = True
            if (k, "goal2") in out:
                info["second_solver"] = out[(k, "goal2")][0]
                if {out[(k, "goal2")][0], v} == {"sat", "unsat"}:
                    v = "unknown"          # the two solvers disagree: inconclusive, never success
                    info["solver_disagreement"] = True
            tw = None
            if ob.twin and (k, "twin") in out:
                tw = out[(k, "twin")][0]
                secs += out[(k, "twin")][1]
            pre[k] = (v, secs, tw, info, msg if v == "sat" else "")
        return pre
    finally:
        shutil.rmtree(tmp, ignore_errors=True)


def robust_model(ob, hyps, goal, rng):
    """ask for a counterexample with moderate magnitudes (numerically stable under replay)"""
    cs = []
    for e in ob.encs:
        cs += consts_of(e.sym_args)
    extra = []
    for c in cs:
        if z3.is_real(c):
            extra.append(z3.And(c >= -8, c <= 8))
    v, m, _, _ = smt.check_sat(hyps + extra + [z3.Not(goal)], min(ob.timeout_s, 30), ob.tactic, ob.schemas)
    return m if v == "sat" else None


def replay_model(ob, model, rng, hyps, goal):
    """Replay a solver model on the real code.  Returns dict(reproduced=bool, ...)."""
    if ob.custom_replay is not None:
        try:
            return ob.custom_replay(ob, model, rng)
        except Exception as ex:
            return dict(reproduced=False, error=f"{type(ex).__name__}: {ex}", trace=traceback.format_exc()[-1500:])
    attempts = []
    models = [model]
    try:
        rm = robust_model(ob, hyps, goal, rng)
        if rm is not None:
            models.insert(0, rm)
    except Exception:
        pass
    tries = []
    for m in models:
        env0 = {}
        for e in ob.encs:
            for c in consts_of(e.sym_args):
                v = model_value(m, c)
                if v is not None:
                    env0[c.decl().name()] = float(np.float32(v)) if isinstance(v, float) else v
        tries.append(env0)
    # fall-back: seeded random points around the model (confirmation only; the verdict was the solver's)
    base = dict(tries[0])
    for k in range(12):
        env = {}
        for nm, v in base.items():
            if isinstance(v, float):
                lo, hi = ob.bounds.get(nm, None) or next((e.domain[nm] for e in ob.encs if nm in e.domain), (None, None))
                x = float(v + rng.normal() * (0.5 + 0.5 * abs(v))) if k % 2 == 0 else float(rng.normal() * 1.5)
                if lo is not None:
                    x = min(max(x, lo), hi)
                env[nm] = x
            elif isinstance(v, int) and not isinstance(v, bool) and any(nm in e.domain for e in ob.encs):
                lo, hi = next(e.domain[nm] for e in ob.encs if nm in e.domain)
                env[nm] = int(rng.integers(int(lo), int(hi) + 1)) if k > 0 else v       # integers (times, indices) are varied inside their stated domain
            else:
                env[nm] = v
        tries.append(env)
    last = None
    for env0 in tries:
        env = dict(env0)
        try:
            rviews = []
            inputs = {}
            for e in ob.encs:
                cargs = e.concrete_args(env)
                rviews.append(e.replay_view(env, cargs))
                inputs[e.name] = jax.tree_util.tree_map(lambda x: np.asarray(x).tolist(), cargs)
            rb = ob.build(rviews[0] if len(rviews) == 1 else rviews)
            rh, rg = rb[0], rb[1]
            ze = ZEval(env, tol=ob.tol)
            hyps_ok = all(bool(ze(h)) for h in rh)
            gval = bool(ze(rg))
        except NoValue as ex:
            last = dict(reproduced=False, error=f"no value: {ex}")
            continue
        except Inconclusive as ex:
            last = dict(reproduced=False, error=str(ex))
            continue
        except Exception as ex:
            # an exception raised by the code under test on admissible inputs is a reproduction
            last = dict(reproduced=True, exception=f"{type(ex).__name__}: {ex}", inputs=_jsonable(env0))
            return last
        attempts.append((hyps_ok, gval))
        if hyps_ok and not gval:
            return dict(reproduced=True, inputs=_jsonable(inputs), env={k: v for k, v in _jsonable(env).items() if not k.startswith(("ro", "ra"))},
                        observed=dict(list({k: v for k, v in _jsonable(env).items() if k.startswith("ro")}.items())[:40]))
        last = dict(reproduced=False, note="goal holds numerically at the solver's point(s)", attempts=len(attempts))
    return last or dict(reproduced=False)


def _jsonable(x):
    if isinstance(x, dict):
        return {str(k): _jsonable(v) for k, v in x.items()}
    if isinstance(x, (list, tuple)):
        return [_jsonable(v) for v in x]
    if isinstance(x, (np.floating, float)):
        x = float(x)
        return x if np.isfinite(x) else str(x)
    if isinstance(x, (np.integer,)):
        return int(x)
    if isinstance(x, (np.bool_,)):
        return bool(x)
    if isinstance(x, np.ndarray):
        return _jsonable(x.tolist())
    if isinstance(x, (int, bool, str)) or x is None:
        return x
    return str(x)


# --------------------------------------------------------------------------- a check run
class Check:
    def __init__(self, pid, tier=None, seed=None):
        self.pid = pid
        self.tier = tier or os.environ.get("VERIF_TIER", "quick")
        if self.tier not in ("quick", "thorough"):
            self.tier = "quick"
        self.seed = int(seed if seed is not None else os.environ.get("VERIF_SEED", "0") or 0)
        self.rng = np.random.default_rng(self.seed)
        self.t0 = time.time()
        self.results = []
        self.violations = []      # dict(signature, what, replay)
        self.inconclusive = []
        self.skipped = []         # (name, reason): attempted but outside the claim
        self.functions = []
        self.assumptions = []
        self.bounds = []
        self.enumerated = []
        self.validated_points = 0
        self.extra = {}
        self.encs = []

    # -- bookkeeping helpers
    def note_enc(self, enc):
        self.encs.append(enc)
        return enc

    def guarded(self, signature, what, fn, *a, **kw):
        """run harness code that executes / traces the code under test.  An exception that originates in
        the repository's code on admissible inputs is a finding (reported with the exception), anything
        else is a harness error.  Returns fn's result or None."""
        try:
            return fn(*a, **kw)
        except (Unsupported, Inconclusive) as ex:
            self.harness_error(signature, f"{type(ex).__name__}: {ex}")
        except Exception as ex:
            tb = ex.__traceback__
            frames = []
            while tb is not None:
                frames.append(tb.tb_frame.f_code.co_filename)
                tb = tb.tb_next
            repo = os.path.abspath(REPO) + os.sep
            inner_repo = [f for f in frames if os.path.abspath(f).startswith(repo)]
            last_own = max([i for i, f in enumerate(frames) if os.path.abspath(f).startswith(VERIF + os.sep)] or [-1])
            last_repo = max([i for i, f in enumerate(frames) if os.path.abspath(f).startswith(repo)] or [-1])
            if inner_repo and last_repo > last_own:
                self.violation(signature, what + f" -- the code under test raised {type(ex).__name__}",
                               dict(reproduced=True, exception=f"{type(ex).__name__}: {str(ex)[:300]}", note="raised inside " + os.path.relpath(frames[last_repo], repo)))
            else:
                self.harness_error(signature, f"{type(ex).__name__}: {ex} ({traceback.format_exc()[-600:]})")
        return None

    def validate(self, enc, npoints=1, **kw):
        n = self.guarded(f"validate:{enc.name}", f"[{enc.name}] running the real function at a concrete admissible point", enc.validate, self.rng, npoints=npoints, **kw)
        self.validated_points += n or 0

    def assume(self, *texts):
        for t in texts:
            if t not in self.assumptions:
                self.assumptions.append(t)

    def run(self, obligations, label=None, parallel=True):
        obligations = list(obligations)
        only = os.environ.get("VERIF_ONLY")
        if only:
            obligations = [o for o in obligations if only in o.name or only in o.signature]
        pre = {}
        if parallel and len(obligations) > 1:
            try:
                pre = solve_parallel(obligations)
            except Exception as ex:   # fall back to in-process solving
                pre = {}
                self.extra.setdefault("notes", []).append(f"parallel solving unavailable: {type(ex).__name__}: {ex}")
        for k, ob in enumerate(obligations):
            try:
                r = solve_obligation(ob, self.rng, pre.get(k))
            except Unsupported as ex:
                r = Result(ob, "unknown", 0.0, detail=f"unsupported: {ex}")
            except Inconclusive as ex:
                r = Result(ob, "unknown", 0.0, detail=str(ex))
            self.record(r)
            if os.environ.get("VERIF_VERBOSE"):
                print(f"  [{r.verdict:7s}] {r.seconds:7.2f}s twin={r.twin} {ob.name[:110]} {r.info.get('tried', r.info.get('tactic'))} {(r.detail or '')[:200]}")

    def record(self, r):
        self.results.append(r)
        ob = r.ob
        if r.verdict == "unsat":
            if r.twin is not None and r.twin != "sat":
                self.inconclusive.append((ob.name, f"vacuity twin {r.twin}: assumptions may be unsatisfiable"))
        elif r.verdict == "sat":
            rp = r.replay or {}
            if rp.get("reproduced"):
                self.violation(ob.signature, ob.name, rp)
            else:
                self.inconclusive.append((ob.name, "solver model did not reproduce on the real code: " + str(rp.get("error") or rp.get("note") or "")))
        else:
            # the solver gave up: an obligation may ask for its replay candidates to be tried on the real code anyway.  A failure of the real
            # code found this way is reported (it is a fact about the code), but the obligation is never *discharged* this way.
            if getattr(ob, "probe_on_unknown", False) and ob.custom_replay is not None:
                try:
                    rp = ob.custom_replay(ob, None, self.rng)
                except Exception as ex:       # noqa: BLE001
                    rp = dict(reproduced=False, error=f"{type(ex).__name__}: {ex}")
                if rp.get("reproduced"):
                    rp["note"] = (rp.get("note", "") + " [solver verdict unknown within its time limit; found by running the obligation's replay candidates on the real code]").strip()
                    self.violation(ob.signature, ob.name, rp)
                    return
            self.inconclusive.append((ob.name, r.detail or f"solver verdict {r.verdict} ({r.info.get('tried')})"))

    def violation(self, signature, what, replay):
        self.violations.append(dict(signature=signature, what=what, replay=replay))

    def harness_error(self, name, why):
        self.inconclusive.append((name, why))

    # -- finishing
    def finish(self, level="model_checking", technique="", samples=None, extra_cov=None):
        wall = time.time() - self.t0
        known = load_known()
        open_sigs = {(k["property"], k["signature"]): k for k in known.get("open", [])}
        new_viol, known_hits = [], []
        for v in self.violations:
            k = open_sigs.get((self.pid, v["signature"]))
            if k is not None:
                known_hits.append((k, v))
            else:
                new_viol.append(v)
        evdir = os.environ.get("VERIF_EVIDENCE_DIR") or os.path.join(VERIF, "evidence")
        rpdir = os.environ.get("VERIF_REPLAY_DIR") or (os.path.join(VERIF, "replays") if not os.environ.get("VERIF_EVIDENCE_DIR") else evdir)
        os.makedirs(rpdir, exist_ok=True)
        os.makedirs(evdir, exist_ok=True)
        for k, v in known_hits:
            print(f"KNOWN-FINDING: property={self.pid} {k['what']}")
        replay_paths = []
        seen = set()
        for n, v in enumerate(new_viol):
            if v["signature"] in seen:
                continue
            seen.add(v["signature"])
            path = os.path.join(rpdir, f"{self.pid}_{len(seen)}.json")
            with open(path, "w") as f:
                json.dump(dict(property=self.pid, signature=v["signature"], what=v["what"], replay=_jsonable(v["replay"]),
                               command=f"./check {self.pid} --replay {path}", repo=REPO), f, indent=1)
            replay_paths.append(path)
            print(f"VIOLATION property={self.pid} replay={path}")
            print(f"  what: {v['what']}")
            brief = {k: v["replay"][k] for k in ("exception", "inputs", "observed", "note") if k in v["replay"]}
            print("  replayed on the real code: " + json.dumps(_jsonable(brief))[:700])
        solved = [r for r in self.results]
        nontrivial = [r for r in solved if not r.trivial and r.verdict in ("unsat", "sat")]
        samples = samples or []
        for r in solved[:400]:
            if len(samples) >= 6:
                break
            if not r.trivial:
                samples.append(dict(obligation=r.ob.name, verdict=r.verdict, solver_s=round(r.seconds, 3), tactic=r.info.get("tactic"),
                                    uf_apps=r.info.get("uf_apps"), twin=r.twin))
        if not samples:
            samples = [dict(obligation=r.ob.name, verdict=r.verdict, trivial=True) for r in solved[:3]]
        cov = dict(
            evaluations=len(solved) + sum(1 for r in solved if r.twin is not None),
            distinct_nontrivial=len({r.ob.name for r in nontrivial}),
            rule=("one evaluation = one solver query (obligation or vacuity twin) over the encoding regenerated from the current source; "
                  "an obligation counts as non-trivial unless every atom of its goal is literally `t == t` (no arithmetic or boolean reasoning needed); "
                  "distinct = distinct obligation names"),
            samples=samples,
            obligations=len(solved),
            discharged=sum(1 for r in solved if r.verdict == "unsat"),
            syntactic_identities=sum(1 for r in solved if r.trivial),
            closed_by_simplifier=sum(1 for r in solved if r.detail == "simplifier"),
            twins_sat=sum(1 for r in solved if r.twin == "sat"),
            second_solver=dict(binary="z3 4.8.12 (/usr/bin/z3), thorough tier only", agreed=sum(1 for r in solved if r.info.get("second_solver") == r.verdict),
                               unknown=sum(1 for r in solved if r.info.get("second_solver") == "unknown"), disagreed=sum(1 for r in solved if r.info.get("solver_disagreement"))),
            solver_time_s=round(sum(r.seconds for r in solved), 3),
            slowest=[dict(obligation=r.ob.name, s=round(r.seconds, 2)) for r in sorted(solved, key=lambda r: -r.seconds)[:3]],
            functions_encoded=self.functions,
            encodings=[dict(name=e.name, equations=e.n_eqns, encode_s=round(e.encode_s, 2), mode=e.I.mode,
                            stubs=sorted({s[0] for s in e.I.stubs} | {c[0] for c in e.I.calls})) for e in self.encs][:40],
            bounds=self.bounds,
            enumerated_family=self.enumerated,
            translator_validation_points=self.validated_points,
            skipped_outside_claim=[dict(name=n, reason=r) for n, r in self.skipped],
            inconclusive=[dict(name=n, reason=r) for n, r in self.inconclusive],
            known_findings_hit=[k["signature"] for k, _ in known_hits],
            exhaustive=False,
            technique=technique,
        )
        cov.update(self.extra)
        if extra_cov:
            cov.update(extra_cov)
        ev = dict(property_id=self.pid, tier=self.tier, seed=self.seed, level=level, coverage=_jsonable(cov),
                  assumptions=self.assumptions, wall_s=round(wall, 2), violations=len(new_viol))
        with open(os.path.join(evdir, f"{self.pid}.json"), "w") as f:
            json.dump(ev, f, indent=1)
        print(f"[{self.pid}] tier={self.tier} obligations={cov['obligations']} discharged={cov['discharged']} "
              f"(by simplifier {cov['closed_by_simplifier']}, identities {cov['syntactic_identities']}) violations={len(new_viol)} known={len(known_hits)} "
              f"inconclusive={len(self.inconclusive)} skipped={len(self.skipped)} solver={cov['solver_time_s']}s wall={wall:.1f}s")
        if new_viol:
            return 1
        if self.inconclusive:
            for n, r in self.inconclusive[:20]:
                print(f"INCONCLUSIVE {self.pid} {n}: {r}"[:600])
            return 2
        return 0


# --------------------------------------------------------------------------- PRNG key terms as z3 datatype terms
_KEYDT = []


def key_datatype():
    if not _KEYDT:
        K = z3.Datatype("Key")
        K.declare("root", ("name", z3.StringSort()))
        K.declare("split", ("parent", K), ("n", z3.IntSort()), ("idx", z3.IntSort()))
        K.declare("fold_in", ("fparent", K), ("data", z3.StringSort()))
        K.declare("seed", ("sval", z3.StringSort()))
        K.declare("raw", ("w0", z3.StringSort()), ("w1", z3.StringSort()))
        _KEYDT.append(K.create())
    return _KEYDT[0]


def key_z3(term):
    K = key_datatype()
    kind = term[0]
    if kind == "root":
        return K.root(z3.StringVal(str(term[1:])))
    if kind == "split":
        shape, j = term[2], term[3]
        return K.split(key_z3(term[1]), int(np.prod(shape, dtype=int)), int(np.ravel_multi_index(tuple(j), tuple(shape))))
    if kind == "fold_in":
        return K.fold_in(key_z3(term[1]), z3.StringVal(str(term[2])))
    if kind == "seed":
        return K.seed(z3.StringVal(str(term[1])))
    return K.raw(z3.StringVal(str(term[1])), z3.StringVal(str(term[2])))


def colliding_draw_keys(interp, kinds=("normal", "uniform", "gamma", "bits", "shuffle")):
    """pairs of sampler invocations (every call site of the traced code counts) whose key terms z3
    cannot prove distinct in the theory of algebraic datatypes"""
    uniq = [(d["kind"], tuple(d["shape"]), k) for d in interp.draws if d["kind"] in kinds for k in d["keys"]]
    bad = []
    for i in range(len(uniq)):
        for j in range(i):
            s = z3.Solver()
            s.set("timeout", 10000)
            s.add(key_z3(uniq[i][2].term) == key_z3(uniq[j][2].term))
            if str(s.check()) != "unsat":
                bad.append((uniq[j], uniq[i]))
    return bad, len(uniq)


def load_known():
    p = os.path.join(VERIF, "known_findings.json")
    if os.path.exists(p):
        with open(p) as f:
            return json.load(f)
    return {"open": [], "fixed": []}
