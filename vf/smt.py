"""Deciding step: Ackermannisation of uninterpreted functions, instantiated axiom schemas,
tactic selection, timeouts.  `unknown`, errors and timeouts are never success."""
import itertools
import os
import subprocess
import sys
import time

import z3


def ackermannize(exprs, schemas=("pos", "inv", "unit")):
    """Replace every application of an uninterpreted function (arity > 0) by a fresh constant
    and return (new_exprs, consistency_constraints, apps).  With the pairwise functional
    consistency constraints this is sound and complete for QF_UF + arithmetic.

    schemas (instantiated on the applications that occur):
      pos   exp(u) > 0
      inv   log(exp u) = u ; exp(log v) = v for v > 0
      unit  exp(0) = 1 ; log(1) = 0
      mono  u1 <= u2 -> exp(u1) <= exp(u2) and u1 < u2 -> exp(u1) < exp(u2); same for log on positives
    """
    cache = {}
    apps = {}   # fname -> list of (args_new, const)
    ctr = itertools.count()

    def walk(e):
        key = e.get_id()
        if key in cache:
            return cache[key]
        if z3.is_app(e):
            ch = [walk(c) for c in e.children()]
            d = e.decl()
            if d.kind() == z3.Z3_OP_UNINTERPRETED and d.arity() > 0:
                for (args, c) in apps.setdefault(d.name(), []):
                    if all(a.eq(b) for a, b in zip(args, ch)):
                        r = c
                        break
                else:
                    r = z3.Const(f"{d.name()}@{next(ctr)}", e.sort())
                    apps[d.name()].append((ch, r))
            elif ch:
                r = d(*ch) if not all(a.eq(b) for a, b in zip(ch, e.children())) else e
            else:
                r = e
        else:
            r = e
        cache[key] = r
        return r

    new = [walk(e) for e in exprs]
    cons = []
    for fname, lst in apps.items():
        for (a1, c1), (a2, c2) in itertools.combinations(lst, 2):
            cons.append(z3.Implies(z3.And(*[x == y for x, y in zip(a1, a2)]), c1 == c2))
    exps, logs = apps.get("exp", []), apps.get("log", [])
    real = lambda t: z3.is_real(t)
    if "inv" in schemas:
        for (ue, ce) in exps:
            for (vl, cl) in logs:
                if real(ce):
                    cons.append(z3.Implies(vl[0] == ce, cl == ue[0]))
                    cons.append(z3.Implies(z3.And(ue[0] == cl, vl[0] > 0), ce == vl[0]))
    if "pos" in schemas:
        for (ue, ce) in exps:
            if real(ce):
                cons.append(ce > 0)
    if "unit" in schemas:
        for (ue, ce) in exps:
            if real(ce):
                cons.append(z3.Implies(ue[0] == 0, ce == 1))
        for (vl, cl) in logs:
            if real(cl):
                cons.append(z3.Implies(vl[0] == 1, cl == 0))
    if "recip" in schemas:
        # a * b = 1 (a, b > 0)  ->  log a + log b = 0
        for (v1, c1), (v2, c2) in itertools.combinations(logs, 2):
            if real(c1):
                cons.append(z3.Implies(z3.And(v1[0] > 0, v2[0] > 0, v1[0] * v2[0] == 1), c1 + c2 == 0))
    if "mono" in schemas:
        for (u1, c1), (u2, c2) in itertools.permutations(exps, 2):
            if real(c1):
                cons.append(z3.Implies(u1[0] <= u2[0], c1 <= c2))
                cons.append(z3.Implies(u1[0] < u2[0], c1 < c2))
        for (u1, c1), (u2, c2) in itertools.permutations(logs, 2):
            if real(c1):
                cons.append(z3.Implies(z3.And(u1[0] > 0, u1[0] <= u2[0]), c1 <= c2))
    return new, cons, apps


def expand_logs(exprs, log_name="log"):
    """log(a*b) -> log a + log b, log(a/b) -> log a - log b, log(a^k) -> k log a, log(numeral) -> its value.
    Returns (new_exprs, positivity side conditions that must hold for the rewriting to be valid)."""
    import math
    from fractions import Fraction
    cache = {}
    side = []
    logf = [None]

    def num(x):
        return float(Fraction(x.numerator_as_long(), x.denominator_as_long()))

    def pos(c, guard):
        side.append(c > 0 if guard is None else z3.Implies(guard, c > 0))

    def lg(t, guard=None):
        t = z3.simplify(t)
        if z3.is_rational_value(t):
            v = num(t)
            if v > 0:
                fr = Fraction(math.log(v))
                return z3.RealVal(f"{fr.numerator}/{fr.denominator}")
            return logf[0](t)
        if z3.is_app(t):
            k = t.decl().kind()
            ch = t.children()
            if k == z3.Z3_OP_ITE:
                g1 = ch[0] if guard is None else z3.And(guard, ch[0])
                g2 = z3.Not(ch[0]) if guard is None else z3.And(guard, z3.Not(ch[0]))
                return z3.If(ch[0], lg(ch[1], g1), lg(ch[2], g2))
            if k == z3.Z3_OP_MUL:
                for c in ch:
                    if not z3.is_rational_value(c):
                        pos(c, guard)
                    elif num(c) <= 0:
                        return logf[0](t)
                r = lg(ch[0], guard)
                for c in ch[1:]:
                    r = r + lg(c, guard)
                return r
            if k == z3.Z3_OP_DIV:
                for c in ch:
                    if not z3.is_rational_value(c):
                        pos(c, guard)
                    elif num(c) <= 0:
                        return logf[0](t)
                return lg(ch[0], guard) - lg(ch[1], guard)
            if k == z3.Z3_OP_POWER and z3.is_rational_value(ch[1]):
                pos(ch[0], guard)
                return ch[1] * lg(ch[0], guard)
        return logf[0](t)

    def walk(e):
        key = e.get_id()
        if key in cache:
            return cache[key]
        if z3.is_app(e) and e.num_args() > 0:
            ch = [walk(c) for c in e.children()]
            d = e.decl()
            if d.kind() == z3.Z3_OP_UNINTERPRETED and d.name() == log_name and d.arity() == 1:
                logf[0] = d
                r = lg(ch[0])
            else:
                r = d(*ch) if not all(a.eq(b) for a, b in zip(ch, e.children())) else e
        else:
            r = e
        cache[key] = r
        return r
    out = [walk(e) for e in exprs]
    return out, side


def size_of(e, seen=None):
    seen = set() if seen is None else seen
    stack = [e]
    n = 0
    while stack:
        x = stack.pop()
        if x.get_id() in seen:
            continue
        seen.add(x.get_id())
        n += 1
        stack.extend(x.children())
    return n


def has_kind(exprs, pred):
    seen = set()
    stack = list(exprs)
    while stack:
        x = stack.pop()
        if x.get_id() in seen:
            continue
        seen.add(x.get_id())
        if pred(x):
            return True
        stack.extend(x.children())
    return False


def _is_nonlinear(x):
    if not z3.is_app(x):
        return False
    k = x.decl().kind()
    if k == z3.Z3_OP_MUL:
        return sum(0 if (z3.is_rational_value(c) or z3.is_int_value(c)) else 1 for c in x.children()) >= 2
    if k == z3.Z3_OP_DIV:
        c = x.children()[1]
        return not (z3.is_rational_value(c) or z3.is_int_value(c))
    return k == z3.Z3_OP_POWER


def prepare(assertions, tactic="auto", schemas=("pos", "inv", "unit"), ack=True):
    info = {}
    asserts = list(assertions)
    fp = has_kind(asserts, lambda x: z3.is_fp(x) or z3.is_bv(x))
    if ack and not fp:
        new, cons, apps = ackermannize(asserts, schemas)
        info["uf_apps"] = {k: len(v) for k, v in apps.items()}
        asserts = list(new) + list(cons)
    elif fp:
        tactic = "default"
    if tactic == "auto":
        has_int = has_kind(asserts, lambda x: z3.is_int(x) and not z3.is_int_value(x))
        tactic = "nlsat" if (has_kind(asserts, _is_nonlinear) and not has_int) else "default"
    info["tactic"] = tactic
    info["fp"] = fp
    return asserts, tactic, info


def check_sat(assertions, timeout_s=120, tactic="auto", schemas=("pos", "inv", "unit"), ack=True):
    """Returns (verdict, model_or_None, seconds, info).  verdict in {'sat','unsat','unknown'}."""
    t0 = time.time()
    asserts, tactic, info = prepare(assertions, tactic, schemas, ack)
    fp = info["fp"]
    tried = []
    order = [tactic] + (["default"] if tactic == "nlsat" else ["nlsat"] if not fp else [])
    verdict, model = "unknown", None
    remaining = timeout_s
    for tac in order:
        if remaining <= 0.5:
            break
        s = z3.Tactic("qfnra-nlsat").solver() if tac == "nlsat" else z3.Solver()
        budget = remaining if tac == order[-1] else max(remaining * 0.6, min(remaining, 5))
        s.set("timeout", int(budget * 1000))
        s.add(asserts)
        t1 = time.time()
        try:
            r = s.check()
        except z3.Z3Exception as ex:
            tried.append((tac, f"error: {ex}"))
            remaining -= time.time() - t1
            continue
        remaining -= time.time() - t1
        tried.append((tac, str(r)))
        if str(r) in ("sat", "unsat"):
            verdict = str(r)
            if verdict == "sat":
                model = s.model()
            break
    info["tried"] = tried
    return verdict, model, time.time() - t0, info


Z3BIN = os.path.join(os.path.dirname(sys.executable), "z3")


def export_query(assertions, tactic, path):
    s = z3.Solver()
    s.add(assertions)
    txt = s.to_smt2()
    if tactic == "nlsat":
        txt = txt.replace("(check-sat)", "(check-sat-using qfnra-nlsat)")
    txt += "\n(get-model)\n"
    with open(path, "w") as f:
        f.write(txt)


Z3OLD = "/usr/bin/z3"        # z3 4.8.12 (Debian): second opinion in the thorough tier


def run_external(path, timeout_s, binary=None):
    """one z3 process on an exported query; any error / unknown / timeout is 'unknown'"""
    t0 = time.time()
    try:
        p = subprocess.run([binary or Z3BIN, f"-T:{int(max(1, timeout_s))}", path], capture_output=True, text=True, timeout=timeout_s + 30)
        out = p.stdout.strip().splitlines()
    except subprocess.TimeoutExpired:
        return "unknown", time.time() - t0, "timeout"
    first = out[0].strip() if out else ""
    errs = [l for l in out if "(error" in l and "model is not available" not in l]
    if errs or first not in ("sat", "unsat"):
        return "unknown", time.time() - t0, (first or p.stderr.strip())[:200]
    return first, time.time() - t0, ("\n".join(out[1:]) if first == "sat" else "")


def pins_from_model_text(text, consts):
    """equalities `c == value` for the given z3 constants, read from the `(get-model)` output of an external z3"""
    import re
    decls = {c.decl().name(): c for c in consts}
    pins = []
    # (define-fun name () Sort value) possibly spanning lines
    for m in re.finditer(r"\(define-fun\s+(\|[^|]*\||\S+)\s+\(\)\s+(\(.*?\)|\S+)\s+(.*?)\)\s*(?=\(define-fun|\)\s*$|$)", text, re.S):
        name = m.group(1).strip("|")
        if name not in decls:
            continue
        c = decls[name]
        val = m.group(3).strip()
        try:
            sort_txt = c.sort().sexpr()
            e = z3.parse_smt2_string(f"(declare-const x {sort_txt})(assert (= x {val}))", ctx=c.ctx)[0]
            pins.append(c == e.arg(1))
        except z3.Z3Exception:
            continue
    return pins


def to_smt2(assertions, schemas=("pos", "inv", "unit")):
    new, cons, _ = ackermannize(list(assertions), schemas)
    s = z3.Solver()
    s.add(new)
    s.add(cons)
    return s.to_smt2()
