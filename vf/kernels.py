"""Shared harness pieces for the kernel properties (C04, C06, C09, C11, C12): real liesel
kernels on small models, blackjax re-bound to a `verif_stub`, traced transition functions."""
import contextlib

import jax
import jax.numpy as jnp
import numpy as np

from . import stubs

DA = dict(da_target_accept=0.3, da_gamma=0.07, da_kappa=0.6, da_t0=7)   # non-default on purpose


class FakeBlackjax:
    """stands in for blackjax.nuts / blackjax.hmc: `.step` is a verif_stub whose real
    implementation (spy mode) is the real blackjax kernel"""

    def __init__(self, real_factory, kind, rec):
        self.real_factory, self.kind, self.rec = real_factory, kind, rec

    def __call__(self, **kw):
        self.rec.clear()
        self.rec.update(kw)
        return _FakeAlgo(self, kw)


class _FakeAlgo:
    def __init__(self, parent, kw):
        self.parent, self.kw = parent, kw

    def step(self, key, state):
        from blackjax.mcmc import hmc as bj_hmc, nuts as bj_nuts
        p = self.parent
        p.rec["state_in"] = state
        p.rec["key"] = key
        like = dict(position=state.position, acc=jnp.zeros(()), accepted=jnp.array(False), divergent=jnp.array(False),
                    turning=jnp.array(False), expansions=jnp.array(0, jnp.int32), steps=jnp.array(0, jnp.int32))

        def real(pos, ld, grad, ss, imm, k):
            st, info = p.real_factory(**self.kw).step(k, state)
            return dict(position=st.position, acc=jnp.asarray(info.acceptance_rate, jnp.float32),
                        accepted=jnp.asarray(getattr(info, "is_accepted", True)), divergent=jnp.asarray(info.is_divergent),
                        turning=jnp.asarray(getattr(info, "is_turning", False)),
                        expansions=jnp.asarray(getattr(info, "num_trajectory_expansions", 0), jnp.int32),
                        steps=jnp.asarray(info.num_integration_steps, jnp.int32))
        o = stubs.stub("blackjax_step", (state.position, state.logdensity, state.logdensity_grad, self.kw["step_size"],
                                         self.kw["inverse_mass_matrix"], key), like, real=real)
        new = state._replace(position=o["position"])
        if p.kind == "nuts":
            info = bj_nuts.NUTSInfo(momentum=None, is_divergent=o["divergent"], is_turning=o["turning"], energy=jnp.zeros(()),
                                    trajectory_leftmost_state=None, trajectory_rightmost_state=None,
                                    num_trajectory_expansions=o["expansions"], num_integration_steps=o["steps"], acceptance_rate=o["acc"])
        else:
            info = bj_hmc.HMCInfo(momentum=None, acceptance_rate=o["acc"], is_accepted=o["accepted"], is_divergent=o["divergent"],
                                  energy=jnp.zeros(()), proposal=None, num_integration_steps=o["steps"])
        return new, info


@contextlib.contextmanager
def stub_blackjax(rec):
    """re-bind the module-level names liesel's NUTS/HMC kernels call"""
    import liesel.goose.hmc as hmc_mod
    import liesel.goose.nuts as nuts_mod
    real_n, real_h = nuts_mod.nuts_kernel, hmc_mod.hmc_kernel
    nuts_mod.nuts_kernel = FakeBlackjax(real_n, "nuts", rec)
    hmc_mod.hmc_kernel = FakeBlackjax(real_h, "hmc", rec)
    try:
        yield
    finally:
        nuts_mod.nuts_kernel, hmc_mod.hmc_kernel = real_n, real_h


def with_stub(fn, rec):
    """fn executed with blackjax re-bound (tracing: verif_stub; spy mode: the real kernel, recorded)"""
    def wrapped(*a, **k):
        with stub_blackjax(rec):
            return fn(*a, **k)
    return wrapped


def lp_ab(s):
    """coupled toy density over a (2,), b ()"""
    return -0.5 * jnp.sum((s["a"] - s["m"]) ** 2) * s["w"] - jnp.exp(s["b"]) + s["b"] * s["a"][0] * 0.5


STATE_AB = {"a": jnp.array([0.3, -0.2]), "b": jnp.array(0.1), "m": jnp.array([0.5, 1.0]), "w": jnp.array(2.0)}


def mh_proposal(key, model_state, step_size):
    import liesel.goose as gs
    z = jax.random.normal(key, ())
    b = model_state["b"]
    # multiplicative (log-normal) random walk on exp(b): asymmetric in b? no: additive in b, declared correction 0.25*step*z
    return gs.MHProposal({"b": b + step_size * z}, log_correction=0.25 * step_size * z)


def make_kernel(kind, keys=None, da=DA, late=False, **kw):
    """late=True: the dual-averaging constants are assigned as attributes AFTER construction (kernel.da_target_accept = ...), the way a user
    re-configures a kernel object; the kernel must adapt with the constants it carries at the time of the call"""
    import liesel.goose as gs
    if late:
        k = make_kernel(kind, keys, {}, False, **kw)
        for a_, v_ in da.items():
            setattr(k, a_, v_)
        return k
    keys = keys or {"rw": ["b", "a"], "mh": ["b"], "iwls": ["b"], "hmc": ["b", "a"], "nuts": ["b", "a"]}[kind]
    if kind == "rw":
        k = gs.RWKernel(keys, **da, **kw)
    elif kind == "mh":
        k = gs.MHKernel(keys, mh_proposal, da_tune_step_size=kw.pop("tune", True), **da, **kw)
    elif kind == "iwls":
        k = gs.IWLSKernel(keys, **da, **kw)
    elif kind == "hmc":
        k = gs.HMCKernel(keys, initial_step_size=0.1, **da, **kw)
    elif kind == "nuts":
        k = gs.NUTSKernel(keys, initial_step_size=0.1, **da, **kw)
    else:
        raise ValueError(kind)
    k.set_model(gs.DictInterface(lp_ab))
    k.identifier = "k_" + kind
    return k


def example_kernel_state(kind, k):
    from liesel.goose.hmc import HMCKernelState
    from liesel.goose.iwls import IWLSKernelState
    from liesel.goose.nuts import NUTSKernelState
    from liesel.goose.rw import RWKernelState
    if kind in ("rw", "mh"):
        return RWKernelState(0.5)
    if kind == "iwls":
        return IWLSKernelState(0.5)
    d = sum(int(np.prod(np.shape(STATE_AB[x]), dtype=int)) for x in k.position_keys)
    return (HMCKernelState if kind == "hmc" else NUTSKernelState)(0.5, jnp.ones(d))


def epoch_state(etype, tie, duration=10):
    from liesel.goose.epoch import EpochConfig, EpochState
    return EpochState(EpochConfig(etype, duration, 1, None), 1, 5 + tie, 5, tie)
