"""entry point: python -m vf.run <ID> [--tier quick|thorough] [--replay file]"""
import argparse
import importlib
import logging
import os
import sys
import traceback
import warnings

warnings.filterwarnings("ignore")
logging.disable(logging.WARNING)


def main():
    ap = argparse.ArgumentParser()
    ap.add_argument("pid")
    ap.add_argument("--tier", default=None)
    ap.add_argument("--replay", default=None)
    a = ap.parse_args()
    if a.tier:
        os.environ["VERIF_TIER"] = a.tier
    pid = a.pid.upper()
    import liesel
    repo = os.environ.get("VERIF_REPO", "/repo")
    if not os.path.abspath(liesel.__file__).startswith(os.path.abspath(repo) + os.sep):
        print(f"HARNESS-ERROR liesel imported from {liesel.__file__}, expected under {repo}")
        return 2
    try:
        mod = importlib.import_module(f"vf.props.{pid.lower()}")
    except ModuleNotFoundError:
        print(f"HARNESS-ERROR no check for {pid}")
        return 2
    try:
        if a.replay:
            return int(mod.replay(a.replay))
        return int(mod.main())
    except Exception:
        print(f"HARNESS-ERROR {pid}: unexpected exception in the check itself")
        traceback.print_exc()
        return 2


if __name__ == "__main__":
    sys.exit(main())
