"""entry point: python -m vf.run <ID> [--tier quick|thorough] [--replay file]"""
import argparse
import importlib
import logging
import os
import sys
import traceback
import warnings

warnings.filterwarnings("ignore")
logging.disable(logging.WARNING)


def generic_replay(mod, pid, path):
    """re-decides the obligation a replay file belongs to on the current tree and replays the solver's
    counterexample on the real code again (exit 1 if it still reproduces)"""
    import json
    with open(path) as f:
        r = json.load(f)
    print("replay file:", path)
    print("  what     :", r.get("what"))
    print("  recorded :", json.dumps(r.get("replay", {}))[:800])
    os.environ["VERIF_ONLY"] = r.get("signature") or r.get("what", "")
    os.environ.setdefault("VERIF_EVIDENCE_DIR", os.path.join(os.path.dirname(os.path.abspath(path)), "replay-evidence"))
    return int(mod.main())


def main():
    ap = argparse.ArgumentParser()
    ap.add_argument("pid")
    ap.add_argument("--tier", default=None)
    ap.add_argument("--replay", default=None)
    a = ap.parse_args()
    if a.tier:
        os.environ["VERIF_TIER"] = a.tier
    pid = a.pid.upper()
    import liesel
    repo = os.environ.get("VERIF_REPO", "/repo")
    if not os.path.abspath(liesel.__file__).startswith(os.path.abspath(repo) + os.sep):
        print(f"HARNESS-ERROR liesel imported from {liesel.__file__}, expected under {repo}")
        return 2
    try:
        mod = importlib.import_module(f"vf.props.{pid.lower()}")
    except ModuleNotFoundError:
        print(f"HARNESS-ERROR no check for {pid}")
        return 2
    try:
        if a.replay:
            if hasattr(mod, "replay"):
                return int(mod.replay(a.replay))
            return generic_replay(mod, pid, a.replay)
        return int(mod.main())
    except Exception:
        print(f"HARNESS-ERROR {pid}: unexpected exception in the check itself")
        traceback.print_exc()
        return 2


if __name__ == "__main__":
    sys.exit(main())
